"""Static configuration of engines, build variants and per-property tiers for bin/check."""

BASE = ["-std=gnu++17", "-march=native", "-DNDEBUG", "-DPGM_INDEX_VERIF", "-w"]

# pbt_main.o (rapidcheck glue) is compiled once per sanitizer family
COMMON_FLAGS = {
    "plain": ["-std=gnu++17", "-O2", "-w"],
    "asan": ["-std=gnu++17", "-O1", "-g", "-fsanitize=address", "-fno-omit-frame-pointer", "-w"],
    "tsan": ["-std=gnu++17", "-O1", "-g", "-fsanitize=thread", "-w"],
}
COMMON_VARIANT = {"sem": "plain", "semp": "plain", "semv2": "plain", "asan": "asan", "tsan": "tsan"}
# builds of the "portable" lane (C08, C10), used by the extra shards in turn: generic x86-64 (no SSE4.2, no BMI2: the generic branches of the
# vendored sdsl) and x86-64-v2 (SSE4.2 without BMI2: the popcount-based select)
PORTABLE_VARIANTS = ["semp", "semv2"]


def flags_for(variant, repo, spec):
    inc = ["-I" + repo + "/include", "-I" + repo + "/c-interface"]
    if variant == "sem":
        return BASE + ["-O2", "-fopenmp"] + inc
    if variant == "semp":  # "portable" lane: generic x86-64 (no SSE4.2 / BMI2 / AVX2), i.e. the fallback branches of the vendored sdsl
        return [f for f in BASE if f != "-march=native"] + ["-O2", "-fopenmp"] + inc
    if variant == "semv2":
        return [f for f in BASE if f != "-march=native"] + ["-march=x86-64-v2", "-O2", "-fopenmp"] + inc
    if variant == "asan":
        return BASE + ["-O1", "-g", "-fopenmp", "-fsanitize=address", "-fno-omit-frame-pointer"] + inc
    if variant == "tsan":  # no OpenMP: libgomp is not TSan-instrumented
        return BASE + ["-O1", "-g", "-fsanitize=thread"] + inc
    raise ValueError(variant)


def link_flags(variant, spec):
    if variant in ("sem", "semp", "semv2"):
        return ["-fopenmp"]
    if variant == "asan":
        return ["-fopenmp", "-fsanitize=address"]
    if variant == "tsan":
        return ["-fsanitize=thread", "-pthread"]
    raise ValueError(variant)


def libs(variant, spec):
    return ["-lrapidcheck", "-lpthread"]


def _static_units():
    types = [("uint8_t", "u8"), ("int8_t", "i8"), ("uint16_t", "u16"), ("int16_t", "i16"), ("uint32_t", "u32"),
             ("int32_t", "i32"), ("uint64_t", "u64"), ("int64_t", "i64"), ("float", "f32"), ("double", "f64")]
    return [("inst.cpp", {"VF_KEY": t, "VF_KEYID": i}) for t, i in types] + [("e_static.cpp", {})]


def _typed_units(main):
    types = [("uint8_t", "u8"), ("int8_t", "i8"), ("uint16_t", "u16"), ("int16_t", "i16"), ("uint32_t", "u32"),
             ("int32_t", "i32"), ("uint64_t", "u64"), ("int64_t", "i64"), ("float", "f32"), ("double", "f64")]
    return [("inst.cpp", {"VF_KEY": t, "VF_KEYID": i}) for t, i in types] + [(main, {})]


ENGINES = {
    "e_static": {"dir": "e_static", "units": _static_units()},
    "e_seg": {"dir": "e_seg", "units": [("inst.cpp", {"VF_KEY": "long long", "VF_KEYID": "ll"}), ("inst.cpp", {"VF_KEY": "unsigned long long", "VF_KEYID": "ull"})] +
              _typed_units("e_seg.cpp")},
    "e_mapped": {"dir": "e_mapped", "units": [("inst.cpp", {"VF_KEY": t, "VF_KEYID": i}) for t, i in [
        ("uint16_t", "u16"), ("int16_t", "i16"), ("uint32_t", "u32"), ("int32_t", "i32"), ("uint64_t", "u64"), ("int64_t", "i64")]] + [("e_mapped.cpp", {})]},
    "e_multidim": {"dir": "e_multidim", "units": [("inst.cpp", {"VF_D": d, "VF_T": t, "VF_ID": "d%s%s" % (d, i)}) for d in "234"
                                                 for t, i in [("uint32_t", "u32"), ("uint64_t", "u64")]] + [("e_multidim.cpp", {})]},
    "e_dynamic": {"dir": "e_dynamic", "units": [
        ("inst.cpp", {"VF_KEY": "uint32_t", "VF_KEYID": "u32", "VF_SET": "0"}),
        ("inst.cpp", {"VF_KEY": "uint64_t", "VF_KEYID": "u64", "VF_SET": "1"}),
        ("inst.cpp", {"VF_KEY": "int32_t", "VF_KEYID": "i32", "VF_SET": "2"}),
        ("inst.cpp", {"VF_KEY": "int64_t", "VF_KEYID": "i64", "VF_SET": "3"}),
        ("inst.cpp", {"VF_KEY": "uint16_t", "VF_KEYID": "u16", "VF_SET": "4"}),
        ("e_dynamic.cpp", {})]},
    "e_cif": {"dir": "e_cif", "units": [("e_cif.cpp", {}), ("$REPO/c-interface/cpgm.cpp", {})]},
    "e_reject": {"dir": "e_reject", "units": [("e_reject.cpp", {}), ("reject_static.cpp", {}), ("reject_dynamic.cpp", {}), ("reject_misc.cpp", {}),
                                               ("$REPO/c-interface/cpgm.cpp", {})]},
    "e_copy": {"dir": "e_copy", "units": [("e_copy.cpp", {})]},
    "e_conc": {"dir": "e_conc", "units": [("e_conc.cpp", {})]},
    "e_variants": {"dir": "e_variants", "units": [
        ("inst.cpp", {"VF_KEY": "uint8_t", "VF_KEYID": "u8", "VF_KEYBITS": "8"}),
        ("inst.cpp", {"VF_KEY": "uint16_t", "VF_KEYID": "u16", "VF_KEYBITS": "16"}),
        ("inst.cpp", {"VF_KEY": "uint32_t", "VF_KEYID": "u32", "VF_KEYBITS": "32"}),
        ("inst.cpp", {"VF_KEY": "uint64_t", "VF_KEYID": "u64", "VF_KEYBITS": "64"}),
        ("e_variants.cpp", {})]},
}

CHECKS = {
    "C01": {"engine": "e_static",
            "quick": {"shards": 8, "cases": 4000}, "thorough": {"shards": 16, "cases": 150000}},
    "C02": {"engine": "e_static", "fuzz": [{"engine": "e_static", "prop": "C02", "seconds": 240, "jobs": 6}],
            "quick": {"shards": 8, "cases": 4000}, "thorough": {"shards": 16, "cases": 150000}},
    "C03": {"engine": "e_seg",
            # one more process per tier: the "beyond 2^32 points in one builder" class (functor-fed, about a minute per case)
            "extra_jobs": {"quick": [{"tag": "beyond32", "env": {"VF_C03_BEYOND32": "1"}, "cases": 1, "shrink_budget": 1}],
                           "thorough": [{"tag": "beyond32", "env": {"VF_C03_BEYOND32": "1"}, "cases": 4, "shrink_budget": 2}]},
            "quick": {"shards": 8, "cases": 4000}, "thorough": {"shards": 16, "cases": 120000}},
    "C04": {"engine": "e_seg",
            "quick": {"shards": 8, "cases": 2500}, "thorough": {"shards": 16, "cases": 60000}},
    "C08": {"engine": "e_variants", "portable_shards": {"quick": 4, "thorough": 8},
            "quick": {"shards": 8, "cases": 3000}, "thorough": {"shards": 16, "cases": 40000}},
    "C09": {"engine": "e_variants",
            "quick": {"shards": 8, "cases": 3000}, "thorough": {"shards": 16, "cases": 100000}},
    "C10": {"engine": "e_variants", "portable_shards": {"quick": 4, "thorough": 8}, "fuzz": [{"engine": "e_variants", "prop": "C10", "seconds": 300, "jobs": 6}],
            "quick": {"shards": 8, "cases": 3000}, "thorough": {"shards": 16, "cases": 40000}},
    "C11": {"engine": "e_mapped",
            "quick": {"shards": 8, "cases": 2000}, "thorough": {"shards": 16, "cases": 40000}},
    "C12": {"engine": "e_mapped",
            "quick": {"shards": 8, "cases": 1500}, "thorough": {"shards": 16, "cases": 30000}},
    "C13": {"engine": "e_multidim", "fuzz": [{"engine": "e_multidim", "prop": "C13", "seconds": 300, "jobs": 6, "tape_words": 256}],
            "quick": {"shards": 8, "cases": 10000}, "thorough": {"shards": 16, "cases": 60000}},
    "C14": {"engine": "e_multidim",
            "quick": {"shards": 8, "cases": 10000}, "thorough": {"shards": 16, "cases": 60000}},
    "C05": {"engine": "e_dynamic", "fuzz": [{"engine": "e_dynamic", "prop": "C05", "seconds": 300, "jobs": 6, "tape_words": 2048}],
            "quick": {"shards": 8, "cases": 1200}, "thorough": {"shards": 16, "cases": 30000}},
    "C06": {"engine": "e_dynamic",
            "quick": {"shards": 8, "cases": 1200}, "thorough": {"shards": 16, "cases": 30000}},
    "C15": {"engine": "e_dynamic",
            "quick": {"shards": 8, "cases": 1000}, "thorough": {"shards": 16, "cases": 20000}},
    "C18": {"engine": "e_cif",
            "quick": {"shards": 8, "cases": 2500}, "thorough": {"shards": 16, "cases": 60000}},
    "C20": {"engine": "e_reject",
            "quick": {"shards": 8, "cases": 12000}, "thorough": {"shards": 16, "cases": 60000}},
    "C17": {"variant": "asan", "mode": "mem", "replay_all_regressions": True,
            "fuzz": [{"engine": "e_variants", "prop": "C10", "seconds": 240, "jobs": 4}, {"engine": "e_multidim", "prop": "C13", "seconds": 240, "jobs": 4, "tape_words": 256},
                     {"engine": "e_variants", "prop": "C08", "seconds": 240, "jobs": 4}],
            "multi": [{"engine": "e_static", "prop": "C02"}, {"engine": "e_variants", "prop": "C08"}, {"engine": "e_variants", "prop": "C09"},
                      {"engine": "e_variants", "prop": "C10"}, {"engine": "e_mapped", "prop": "C11"}, {"engine": "e_mapped", "prop": "C12"},
                      {"engine": "e_multidim", "prop": "C13"}, {"engine": "e_multidim", "prop": "C14"}, {"engine": "e_dynamic", "prop": "C06"},
                      {"engine": "e_dynamic", "prop": "C05"}, {"engine": "e_cif", "prop": "C18"}, {"engine": "e_copy", "prop": "C19"},
                      {"engine": "e_seg", "prop": "C03"}],
            "rule": ("the generators of C02, C03, C05, C06, C08-C14, C18 and C19 (copy/move scripts) in --mode mem (semantic mismatches ignored, AddressSanitizer is the oracle; build -O1 -g "
                     "-fsanitize=address, detect_stack_use_after_return=1, leak detection off), every other case with a size hint <= 12 (n = 1, 2, 3 ...), "
                     "queries at lowest(), first-1, last+1, max-1, empty dynamic containers, iterators driven to end(), boxes reaching the last stored point; "
                     "plus every file of replays/regress/*. non-trivial: n <= 3 or data touching lowest()/max-1 or a chunked build or a query outside "
                     "[front,back] (static families), a merge beyond the buffer (dynamic), every multidimensional case; distinct by canonical tape hash"),
            "quick": {"shards": 1, "cases": 700, "crash_shrink_budget": 300}, "thorough": {"shards": 2, "cases": 3500, "crash_shrink_budget": 600}},
    "C19": {"engine": "e_copy", "variant": "asan",
            "quick": {"shards": 8, "cases": 1200, "crash_shrink_budget": 300}, "thorough": {"shards": 16, "cases": 10000, "crash_shrink_budget": 600}},
    "C16": {"engine": "e_conc", "variant": "tsan",
            "quick": {"shards": 8, "cases": 500, "crash_shrink_budget": 200}, "thorough": {"shards": 16, "cases": 6000, "crash_shrink_budget": 400}},
    "C07": {"engine": "e_static",
            "quick": {"shards": 8, "cases": 4000}, "thorough": {"shards": 16, "cases": 120000}},
}

ASSUMPTIONS = {
    "*": ["harness built with the flags of the baseline suite (-O2 -march=native -fopenmp -DNDEBUG) plus -DPGM_INDEX_VERIF",
          "generated search never proves absence: the property held on the cases listed above",
          "oracles (std::lower_bound / std::map / exact 128-bit arithmetic) are trusted"],
}

HOOK_COMMITS = ["e04fd99"]
NOT_APPLICABLE = {}
NOTES = ("All checks: bin/check <ID> <quick|thorough>; VERIF_SEED selects the rapidcheck seeds (shard i uses seed*1000+i); "
         "VERIF_REPO overrides /repo for sensitivity runs. Exit 2 = infrastructure/harness error, never a verdict. "
         "Known findings: KNOWN_FINDINGS.txt; regression replays: replays/regress/<ID>/; sensitivity: seeded/ and mutants/.")

_STATIC_NOTE = ("trusted: std::lower_bound over the generated array as oracle; generator domain = DESIGN.md section 3 "
                "(float keys on an exactly representable lattice m*2^e, e in [-40,40]); n <= 2*10^5 ordinarily, rare classes up to 2^23 distinct keys and 2^24+2^22 keys "
                "with <= 300 distinct values; ranges handed over as vector / deque / pointer iterators; 1 case in 6 keeps a second index of the same instantiation alive; "
                "configurations = 14 (Epsilon,EpsilonRecursive,Floating) x 10 key types compiled matrix")
_SEG_NOTE = ("trusted: 128-bit integer arithmetic of the oracle; ranks < 2^40; C04 evaluates the pairwise feasibility criterion over two convex hulls (O(log k) per point, any "
             "segment length) and cross-checks it against the literal quadratic evaluation while a 6*10^7 pair-operation budget per case lasts; relies on the "
             "PGM_INDEX_VERIF SegSession hook and Access friend; C03 has one extra process per tier feeding 2^32+ points to one builder through the functor interface")
_VAR_NOTE = ("trusted: std::lower_bound over the generated array; unsigned keys on the full width of the type, n <= 2*10^5, 1..20 threads")
_DYN_NOTE = ("trusted: std::map as reference model; keys strictly below numeric max, values never the tombstone; base^(buffer_level+1) <= 2^21 "
             "(the library reserves that many entries eagerly); universes <= 6000 keys, histories <= 420 ops (runs up to 5000 updates), plus deep histories of 2^16..2^19 single "
             "inserts; range(lo, hi) is open-ended (hi = numeric max) in 1 case of 12; find / lower_bound are never asked for the reserved key itself")
DESCR = {
    "C03": {"level": "generated-input search: every constraint point the builder committed to (captured by the hook) is located in exactly one emitted segment "
                     "and its residual against the reported line is checked exactly (integers) or in long double with a stated tolerance (floats)",
            "design_ref": "DESIGN.md section 6 C03", "note": _SEG_NOTE,
            "technique": "property-based testing with exact 128-bit rational residual oracle"},
    "C04": {"level": "generated-input search: the emitted segmentation of every chunk / level must equal the greedy segmentation driven by an independent exact "
                     "feasibility criterion (closed form over all point pairs), which decides feasibility, maximality and minimality at once",
            "design_ref": "DESIGN.md section 6 C04", "note": _SEG_NOTE,
            "technique": "property-based testing, differential against an exact rational feasibility oracle"},
    "C01": {"level": "generated-input search: every distinct key of constructively generated sorted arrays (duplicates, chunk seams, "
                     "boundary keys, 1..20 threads) is searched and judged completely against the first-occurrence rank; failures are shrunk to a replay file",
            "design_ref": "DESIGN.md section 6 C01", "note": _STATIC_NOTE,
            "technique": "property-based testing (rapidcheck choice tapes) vs std::lower_bound oracle"},
    "C02": {"level": "generated-input search over present and absent queries (neighbours, gap mid-points, far values, whole universe for small types) "
                     "against std::lower_bound restricted to the returned range",
            "design_ref": "DESIGN.md section 6 C02", "note": _STATIC_NOTE,
            "technique": "property-based testing (rapidcheck choice tapes) vs std::lower_bound oracle"},
    "C08": {"level": "generated-input search over unsigned key arrays x 12 CompressedPGMIndex configurations (EpsilonRecursive 0, small, T, T+1, 256): every derived "
                     "query judged against std::lower_bound (range inside [0,n], width, lower bound inside, present key strictly inside)",
            "design_ref": "DESIGN.md section 6 C08-C10", "note": _VAR_NOTE + "; 3 (quick) / 6 (thorough) extra shards run a build without -march=native (generic branches of the vendored sdsl); segment counts steered to 64 / 4096 / 2^k +- 3",
            "technique": "property-based testing (rapidcheck choice tapes) vs std::lower_bound oracle"},
    "C09": {"level": "generated-input search over unsigned key arrays x 8..12 BucketingPGMIndex configurations (power-of-two and other table sizes, dynamic and fixed "
                     "cell widths); O-range, empty ranges outside [first,last], and the routed segment equals the globally rightmost segment <= key",
            "design_ref": "DESIGN.md section 6 C08-C10", "note": _VAR_NOTE + "; a TopLevelBitSize too narrow for the segment count throws invalid_argument by design: counted discard",
            "technique": "property-based testing vs std::lower_bound oracle + recomputed responsible segment through a test subclass"},
    "C10": {"level": "generated-input search over 16..64-bit key arrays x 6 EliasFanoPGMIndex configurations with varying segment-key density (low-bit width histogram "
                     "in the evidence); O-range on every derived query incl. below the first key and beyond the last segment key",
            "design_ref": "DESIGN.md section 6 C08-C10", "note": _VAR_NOTE + "; portable-build shards as for C08; segment counts and the size of the Elias-Fano high bit vector steered to block boundaries (histogram in the evidence)",
            "technique": "property-based testing (rapidcheck choice tapes) vs std::lower_bound oracle"},
    "C11": {"level": "generated-input search over duplicate-heavy signed/unsigned arrays stored in a MappedPGMIndex (range-built and raw-file-built): lower_bound, "
                     "upper_bound, count, contains, begin/end/size compared with the std algorithms for every derived query",
            "design_ref": "DESIGN.md section 6 C11", "note": "trusted: std algorithms on the in-memory copy; files live in /verif/work/<check>/s_<shard>; n <= 2^20; the harness closes the file descriptors the library leaks and maps files with an inaccessible page behind them (its own mmap/munmap); ranges given as vector / pointer / deque / reverse iterators; stale longer files planted at output paths",
            "technique": "property-based testing vs std::lower_bound/upper_bound/count/binary_search"},
    "C12": {"level": "generated-input search over data x generated scripts of {create from range, create from raw file, reopen A, reopen B, reopen again}: byte equality "
                     "of the two written files, file unchanged by every reopen, every instance answers all queries like the std algorithms",
            "design_ref": "DESIGN.md section 6 C12", "note": "trusted: byte comparison of the files read back with ifstream; std algorithms; n <= 2^20; same file and iterator variations as C11",
            "technique": "property-based testing over operation scripts; round-trip / differential oracle"},
    "C13": {"level": "generated-input search over point multisets and boxes; the complete iterated sequence of range(min,max) is compared element-wise with the "
                     "stored points inside the box ordered by an independent Morton encoder (multiplicity, order, termination)",
            "design_ref": "DESIGN.md section 6 C13", "note": "trusted: bit-loop Morton encoder of the oracle (its bit convention is self-tested against the library on two unit points per case); n <= 6000 points per case; half of the cases answer from a copy whose source was destroyed or reassigned; the first two boxes are also enumerated by two live iterators advanced in turn; consecutive boxes may share a corner",
            "technique": "property-based testing vs brute-force box filter + independent Morton sort"},
    "C14": {"level": "generated-input search: contains(p) for stored points, neighbours and absent points constructed below / between / above the stored codes, "
                     "compared with multiset membership",
            "design_ref": "DESIGN.md section 6 C14", "note": "trusted: bit-loop Morton encoder / decoder of the oracle; n <= 6000 points per case; queries include every single-bit twin of sampled stored points; half of the cases answer from a copy whose source was destroyed or reassigned",
            "technique": "property-based testing vs set-membership oracle"},
    "C05": {"level": "stateful generated-input search: histories of bulk-load + insert_or_assign/erase (single and long runs that force cascading merges) are applied to "
                     "the container and to std::map; find/count/lower_bound are compared after every update",
            "design_ref": "DESIGN.md section 6 C05", "note": _DYN_NOTE, "technique": "model-based (stateful) property-based testing vs std::map"},
    "C06": {"level": "stateful generated-input search: complete traversals, iteration from any key, range(lo,hi), size and empty are compared with std::map at generated "
                     "points of generated update histories",
            "design_ref": "DESIGN.md section 6 C06", "note": _DYN_NOTE, "technique": "model-based (stateful) property-based testing vs std::map"},
    "C15": {"level": "stateful generated-input search: after every single update the private layout (levels, sizes, used_levels, per-level indexes) is read through the "
                     "befriended accessor and checked against the LSM invariants; per-level indexes are compared byte-for-byte with a freshly built one",
            "design_ref": "DESIGN.md section 6 C15", "note": _DYN_NOTE + "; relies on the PGM_INDEX_VERIF friend declaration in DynamicPGMIndex",
            "technique": "stateful property-based testing with an invariant over every reachable state"},
    "C18": {"level": "generated-input search through the extern \"C\" functions only (cpgm.cpp of the tree under test is compiled into the harness): static indexes with "
                     "run-time epsilon judged by the C01/C02 oracle (also with other handles of the same key type and other epsilons alive), NULL for reserved data; dynamic call histories judged against std::map incl. the iterator protocol",
            "design_ref": "DESIGN.md section 6 C18", "note": "trusted: std::lower_bound / std::map; dynamic_pgm_index_uint64 is declared in cpgm.h but not defined by cpgm.cpp and is not exercised",
            "technique": "property-based testing (static) and model-based stateful testing (dynamic) through the C ABI"},
    "C20": {"level": "generated-input search over (valid input, one violation, position): every listed precondition violation must be answered with the documented "
                     "exception (NULL from C) at every generated position, and a rejected insert must leave the container unchanged (accessor snapshot + traversal)",
            "design_ref": "DESIGN.md section 6 C20", "note": "trusted: exception classification by catch order; base 0 and 1 are outside the stated property (the member initialisers divide by ceil_log2(base) before the check)",
            "technique": "property-based testing with fault injection into valid inputs; exception-type / unchanged-state oracle"},
    "C17": {"level": "generated-input search under AddressSanitizer: the case generators of eleven semantic checks, biased to boundary sizes and keys, plus all regression "
                     "replays, run against ASan builds of every index class; any ASan report (or crash) on an in-domain case is a violation, minimised in forked children",
            "design_ref": "DESIGN.md section 6 C17", "note": "trusted: AddressSanitizer (g++ 12) as the memory oracle; reads inside live allocations of the wrong object are invisible to it; vendored sdsl code is in scope only as far as the index classes call it",
            "technique": "fuzz-style property-based testing with AddressSanitizer as oracle"},
    "C19": {"level": "stateful generated-input search under AddressSanitizer: scripts of copy/move construction and assignment, destruction of sources, recycling of "
                     "freed memory, updates of sources and queries; every live value must keep answering exactly like its lineage",
            "design_ref": "DESIGN.md section 6 C19", "note": "trusted: AddressSanitizer for use-after-free of source-owned storage; 64-bit digests of the answers (collision probability negligible); MappedPGMIndex is not in C19's list and is not exercised",
            "technique": "stateful property-based testing (digest equality) with AddressSanitizer as second oracle"},
    "C16": {"level": "generated-input search under ThreadSanitizer: generated objects of all seven classes are queried by 2..16 threads running generated scripts from "
                     "one barrier; the happens-before detector covers the schedule dimension for the accesses that execute, result digests cover consistency",
            "design_ref": "DESIGN.md section 6 C16", "note": "trusted: ThreadSanitizer (g++ 12); harness and headers built without OpenMP (libgomp is not instrumented); interleavings are not enumerated: a race is reported only if both conflicting accesses execute in the run",
            "technique": "property-based testing with ThreadSanitizer (happens-before race detection) + differential digest vs sequential run"},
    "C07": {"level": "generated-input search with the routing hook: per level the chosen segment must be the responsible one, within EpsRec+1 of the prediction, "
                     "found inside the 2*EpsRec+3 window; level sizes obey floor(m/(2*EpsRec+1))+c",
            "design_ref": "DESIGN.md section 6 C07", "note": _STATIC_NOTE + "; relies on the PGM_INDEX_VERIF route_event hook",
            "technique": "property-based testing with an instrumented per-level counter and a recomputed responsible segment"},
}
