// e_copy: C19 — copies and moves are independent values (AddressSanitizer build).
#include "../common/engine.hpp"
#include "../common/keygen.hpp"
#include "pgm/pgm_index_dynamic.hpp"
#include "pgm/pgm_index_variants.hpp"
#include <cstring>
#include <map>
#include <memory>
#include <sstream>
#include <tuple>

#ifdef _OPENMP
extern "C" int omp_get_num_procs(void) { return vf::g_fake_procs; }
#endif

namespace vf {

static inline uint64_t mix(uint64_t h, uint64_t x) {
    h ^= x + 0x9E3779B97F4A7C15ull + (h << 6) + (h >> 2);
    return h * 0xff51afd7ed558ccdull;
}

// ------------------------------------------------------------------------------------------------ subjects
// A subject wraps one class: how to build it from the tape, how to digest its answers, how to update it (Dynamic).

template<typename Index, typename K>
struct StaticSubject {
    using Obj = Index;
    std::vector<K> keys, queries;
    std::string name;
    static constexpr bool can_update = false;

    std::unique_ptr<Obj> build(TapeReader &t, unsigned size_hint, std::string &desc, bool execute) {
        KeyMeta meta;
        GenOpts o;
        o.eps = 4;
        o.size_hint = size_hint >= 100 ? 100u : std::min(size_hint, 70u);
        o.exact_segments = true; // segment counts on the block boundaries of the succinct structures (64, 4096, 2^k, +-3)
        o.force_bimodal = size_hint >= 100 && sizeof(K) == 8; // a destination with >= 6*10^4 segments: long select superblocks in its succinct structures
        keys = gen_keys<K>(t, o, meta);
        desc = name + " " + describe_keys(keys, meta);
        if (!execute) return nullptr;
        vf_set_threads(meta.threads);
        queries = gen_queries<K>(keys, meta, 4, false, false);
        if (queries.size() > 1500) queries.resize(1500);
        return std::unique_ptr<Obj>(new Obj(keys.begin(), keys.end()));
    }
    uint64_t digest(Obj &o) {
        uint64_t h = 1;
        for (const K &q: queries) {
            auto r = o.search(q);
            h = mix(mix(mix(h, r.pos), r.lo), r.hi);
        }
        h = mix(h, o.segments_count());
        h = mix(h, o.height());
        return h;
    }
    void update(Obj &, TapeReader &, uint64_t) {}
    void settle(void *, Obj &) {}
};

template<uint8_t D, typename T>
struct MdSubject {
    using Obj = pgm::MultidimensionalPGMIndex<D, T, 4>;
    using Tuple = typename Obj::value_type;
    std::vector<Tuple> pts;
    std::vector<std::pair<Tuple, Tuple>> boxes;
    static constexpr bool can_update = false;

    static Tuple mk(const uint64_t *c) {
        if constexpr (D == 2) return Tuple(T(c[0]), T(c[1]));
        else return Tuple(T(c[0]), T(c[1]), T(c[2]));
    }
    std::unique_ptr<Obj> build(TapeReader &t, unsigned size_hint, std::string &desc, bool execute) {
        size_t n = 1 + t.below(size_hint < 30 ? 20 : 1500);
        unsigned bits = 1 + (unsigned) t.below(9);
        SplitMix pr(t.bits(64));
        pts.clear();
        for (size_t i = 0; i < n; ++i) {
            uint64_t c[3] = {pr.next() & ((1u << bits) - 1), pr.next() & ((1u << bits) - 1), pr.next() & ((1u << bits) - 1)};
            pts.push_back(mk(c));
        }
        boxes.clear();
        for (int b = 0; b < 6; ++b) {
            uint64_t lo[3], hi[3];
            for (int d = 0; d < 3; ++d) {
                uint64_t a = pr.next() & ((1u << bits) - 1), c = pr.next() & ((1u << bits) - 1);
                lo[d] = std::min(a, c), hi[d] = std::max(a, c);
            }
            boxes.emplace_back(mk(lo), mk(hi));
        }
        desc = "MultidimensionalPGMIndex<" + std::to_string(D) + "," + (sizeof(T) == 4 ? "uint32_t" : "uint64_t") + ",4> n=" + std::to_string(n) + " coordinate bits=" + std::to_string(bits) + "\n";
        if (!execute) return nullptr;
        return std::unique_ptr<Obj>(new Obj(pts.begin(), pts.end()));
    }
    static uint64_t th(const Tuple &p) {
        uint64_t h = 7;
        std::apply([&](auto... x) { ((h = mix(h, (uint64_t) x)), ...); }, p);
        return h;
    }
    uint64_t digest(Obj &o) {
        uint64_t h = 1;
        for (size_t i = 0; i < pts.size(); i += std::max<size_t>(1, pts.size() / 200)) h = mix(h, o.contains(pts[i]));
        for (auto &b: boxes) {
            size_t guard = 0;
            for (auto it = o.range(b.first, b.second); it != o.end() && guard < pts.size() + 2; ++it, ++guard) h = mix(h, th(*it));
            h = mix(h, guard);
        }
        return h;
    }
    void update(Obj &, TapeReader &, uint64_t) {}
};

template<typename K, typename V>
struct DynSubject {
    using Obj = pgm::DynamicPGMIndex<K, V, pgm::PGMIndex<K, 4, 4>>;
    std::vector<K> uni;
    static constexpr bool can_update = true;
    static V val(uint64_t id) {
        if constexpr (std::is_same_v<V, std::string>) return "s" + std::to_string(id) + std::string(id % 5 == 0 ? 30 : 0, 'y');
        else return (V) (id % 100000);
    }
    std::unique_ptr<Obj> build(TapeReader &t, unsigned size_hint, std::string &desc, bool execute) {
        KeyMeta meta;
        GenOpts o;
        o.eps = 4;
        o.size_hint = std::min(size_hint, 60u);
        o.allow_threads = false;
        o.max_n = 3000;
        uni = gen_keys<K>(t, o, meta);
        uni.erase(std::unique(uni.begin(), uni.end()), uni.end());
        static const unsigned bases[] = {8, 2, 4, 16};
        unsigned base = bases[t.below(4)], bl = (unsigned) t.below(3), il = (unsigned) t.below(5);
        size_t n_ops = t.below(size_hint < 30 ? 30 : 1500);
        bool bulk = t.chance(1, 2);
        uint64_t seed = t.bits(64);
        desc = std::string("DynamicPGMIndex<") + type_name<K>() + "," + (std::is_same_v<V, std::string> ? "std::string" : "uint32_t") + "> base=" + std::to_string(base) +
               " buffer_level=" + std::to_string(bl) + " index_level=" + std::to_string(il) + " universe=" + std::to_string(uni.size()) + " history=" + std::to_string(n_ops) +
               (bulk ? " bulk-loaded" : "") + "\n";
        if (!execute) return nullptr;
        SplitMix pr(seed);
        std::unique_ptr<Obj> d;
        if (bulk) {
            std::vector<std::pair<K, V>> data;
            for (size_t i = 0; i < uni.size(); i += 2) data.emplace_back(uni[i], val(i));
            d.reset(new Obj(data.begin(), data.end(), (uint8_t) base, (uint8_t) bl, (uint8_t) il));
        } else
            d.reset(new Obj((uint8_t) base, (uint8_t) bl, (uint8_t) il));
        for (size_t i = 0; i < n_ops; ++i) {
            K k = uni[pr.below(uni.size())];
            if (pr.below(4) == 0) d->erase(k);
            else d->insert_or_assign(k, val(pr.next()));
        }
        return d;
    }
    static uint64_t vh(const V &v) {
        if constexpr (std::is_same_v<V, std::string>) return std::hash<std::string>()(v);
        else return (uint64_t) v;
    }
    uint64_t digest(Obj &o) {
        uint64_t h = 1;
        size_t guard = 0;
        for (auto it = o.begin(); it != o.end() && guard < 200000; ++it, ++guard) h = mix(mix(h, (uint64_t) it->first), vh(it->second));
        h = mix(h, guard);
        for (size_t i = 0; i < uni.size(); i += std::max<size_t>(1, uni.size() / 300)) {
            auto it = o.find(uni[i]);
            h = mix(h, it == o.end() ? 0x55 : vh(it->second));
            auto lb = o.lower_bound(uni[i]);
            h = mix(h, lb == o.end() ? 0x77 : (uint64_t) lb->first);
        }
        if (uni.size() >= 2) {
            auto r = o.range(uni.front(), uni[uni.size() / 2]);
            for (auto &p: r) h = mix(mix(h, (uint64_t) p.first), vh(p.second));
        }
        return h;
    }
    void update(Obj &o, TapeReader &, uint64_t seed) {
        SplitMix pr(seed);
        size_t k = 1 + pr.below(700);
        for (size_t i = 0; i < k; ++i) {
            K key = uni[pr.below(uni.size())];
            if (pr.below(3) == 0) o.erase(key);
            else o.insert_or_assign(key, val(pr.next()));
        }
    }
};

// ------------------------------------------------------------------------------------------------ script

struct CopyOp {
    enum Kind { COPY_CONSTRUCT, COPY_ASSIGN, MOVE_CONSTRUCT, MOVE_ASSIGN, DESTROY, SCRIBBLE, UPDATE, QUERY } kind;
    size_t a, b;
    uint64_t seed;
};
static const char *op_names[] = {"copy-construct", "copy-assign", "move-construct", "move-assign", "destroy", "scribble", "update", "query"};

template<typename S>
CaseResult run_copy(const RunCtx &ctx, TapeReader &t, unsigned size_hint, S subj) {
    using Obj = typename S::Obj;
    CaseResult res;
    std::string desc, desc2;
    S subj2 = subj; // a second, independently generated value of the same class: assignments across lineages overwrite real content
    std::unique_ptr<Obj> first = subj.build(t, size_hint, desc, ctx.execute);
    const bool big_other = t.chance(1, 4); // ... sometimes a much larger one (stale state of the assigned-to object must not survive)
    std::unique_ptr<Obj> second = subj2.build(t, big_other ? 100 : size_hint, desc2, ctx.execute);
    desc += "second value: " + desc2;
    size_t n_ops = 3 + t.below(14);
    std::vector<CopyOp> ops;
    // weights favour the interesting sequence: copy/move, destroy source, scribble, query
    static const unsigned w[] = {5, 3, 4, 3, 5, 3, 3, 6};
    if (big_other) { // overwrite the large value with the small one first (assignment must not leave anything of the old content behind)
        switch (t.below(3)) {
            case 0: ops.push_back({CopyOp::COPY_ASSIGN, 0, 1, 0}); break;
            case 1:
                ops.push_back({CopyOp::COPY_CONSTRUCT, 0, 0, 0});
                ops.push_back({CopyOp::MOVE_ASSIGN, 2, 1, 0});
                break;
            default: break;
        }
        ops.push_back({CopyOp::QUERY, 0, 0, 0});
    }
    for (size_t i = 0; i < n_ops; ++i) ops.push_back({(CopyOp::Kind) t.weighted(w), (size_t) t.below(16), (size_t) t.below(16), t.bits(64)});
    ops.push_back({CopyOp::QUERY, 0, 0, 0});
    if (ctx.want_desc) {
        std::ostringstream d;
        d << desc << "script:";
        for (auto &op: ops) d << " " << op_names[op.kind] << "(" << op.a << "," << op.b << ")";
        d << "\n";
        res.desc = d.str();
    }
    if (!ctx.execute) return res;

    struct Slot {
        std::unique_ptr<Obj> obj;
        uint64_t expect = 0; // digest this value must produce
        bool moved_from = false;
    };
    std::vector<Slot> slots;
    slots.emplace_back();
    slots[0].obj = std::move(first);
    slots[0].expect = subj.digest(*slots[0].obj);
    slots.emplace_back();
    slots[1].obj = std::move(second);
    slots[1].expect = subj.digest(*slots[1].obj); // both lineages are digested with the first value's query set
    if (slots[1].expect != slots[0].expect) res.label("two_distinct_values");
    std::vector<std::unique_ptr<std::vector<unsigned char>>> junk;
    bool saw_copy_destroy_query = false;
    std::vector<bool> source_destroyed; // per slot: "is a copy/move whose source has been destroyed since"
    source_destroyed.push_back(false);
    source_destroyed.push_back(false);
    std::vector<long> source_of{-1, -1};

    auto live = [&](size_t x) -> long { // pick a slot holding a valid (not moved-from) value
        std::vector<size_t> c;
        for (size_t i = 0; i < slots.size(); ++i)
            if (slots[i].obj && !slots[i].moved_from) c.push_back(i);
        return c.empty() ? -1 : (long) c[x % c.size()];
    };
    auto any = [&](size_t x) -> long {
        std::vector<size_t> c;
        for (size_t i = 0; i < slots.size(); ++i)
            if (slots[i].obj) c.push_back(i);
        return c.empty() ? -1 : (long) c[x % c.size()];
    };
    auto check = [&](size_t i, const char *when) {
        uint64_t d = subj.digest(*slots[i].obj);
        if (d != slots[i].expect)
            res.fail(std::string("object #") + std::to_string(i) + " answers differently (" + when + "): digest " + std::to_string(d) + ", expected " + std::to_string(slots[i].expect));
        if (source_destroyed[i]) saw_copy_destroy_query = true;
    };

    for (size_t oi = 0; oi < ops.size() && res.ok; ++oi) {
        const CopyOp &op = ops[oi];
        try {
            switch (op.kind) {
                case CopyOp::COPY_CONSTRUCT:
                    if constexpr (std::is_copy_constructible_v<Obj>) {
                        long s = live(op.a);
                        if (s < 0 || slots.size() >= 12) break;
                        Slot n;
                        n.obj.reset(new Obj(*slots[s].obj));
                        n.expect = slots[s].expect;
                        slots.push_back(std::move(n));
                        source_destroyed.push_back(false);
                        source_of.push_back(s);
                        res.label("op_copy_construct");
                    }
                    break;
                case CopyOp::MOVE_CONSTRUCT:
                    if constexpr (std::is_move_constructible_v<Obj>) {
                        long s = live(op.a);
                        if (s < 0 || slots.size() >= 12) break;
                        Slot n;
                        n.obj.reset(new Obj(std::move(*slots[s].obj)));
                        n.expect = slots[s].expect;
                        slots[s].moved_from = true;
                        slots.push_back(std::move(n));
                        source_destroyed.push_back(false);
                        source_of.push_back(s);
                        res.label("op_move_construct");
                    }
                    break;
                case CopyOp::COPY_ASSIGN:
                    if constexpr (std::is_copy_assignable_v<Obj>) {
                        long s = live(op.a), d = any(op.b);
                        if (s < 0 || d < 0) break;
                        *slots[d].obj = *slots[s].obj; // includes self-assignment when s == d
                        slots[d].expect = slots[s].expect;
                        slots[d].moved_from = false;
                        source_destroyed[d] = false;
                        source_of[d] = s == d ? source_of[d] : s;
                        res.label(s == d ? "op_self_copy_assign" : "op_copy_assign");
                    }
                    break;
                case CopyOp::MOVE_ASSIGN:
                    if constexpr (std::is_move_assignable_v<Obj>) {
                        long s = live(op.a), d = any(op.b);
                        if (s < 0 || d < 0 || s == d) break;
                        *slots[d].obj = std::move(*slots[s].obj);
                        slots[d].expect = slots[s].expect;
                        slots[d].moved_from = false;
                        slots[s].moved_from = true;
                        source_destroyed[d] = false;
                        source_of[d] = s;
                        res.label("op_move_assign");
                    }
                    break;
                case CopyOp::DESTROY: {
                    long d = any(op.a);
                    if (d < 0) break;
                    size_t alive = 0;
                    for (auto &s: slots) alive += s.obj && !s.moved_from;
                    if (!slots[d].moved_from && alive <= 1) break; // keep at least one value to query
                    slots[d].obj.reset();
                    for (size_t i = 0; i < slots.size(); ++i)
                        if (source_of[i] == d && slots[i].obj) source_destroyed[i] = true;
                    res.label("op_destroy");
                    break;
                }
                case CopyOp::SCRIBBLE: { // recycle freed memory with a recognisable pattern
                    SplitMix pr(op.seed);
                    for (int i = 0; i < 24; ++i) {
                        size_t sz = 16 << pr.below(12);
                        junk.emplace_back(new std::vector<unsigned char>(sz, 0xAB));
                    }
                    if (junk.size() > 200) junk.erase(junk.begin(), junk.begin() + 100);
                    break;
                }
                case CopyOp::UPDATE:
                    if constexpr (S::can_update) {
                        long s = live(op.a);
                        if (s < 0) break;
                        subj.update(*slots[s].obj, t, op.seed);
                        slots[s].expect = subj.digest(*slots[s].obj); // the updated object defines its own new value ...
                        for (size_t i = 0; i < slots.size(); ++i)     // ... every other value must be unaffected
                            if ((long) i != s && slots[i].obj && !slots[i].moved_from) check(i, "after another object was updated");
                        res.label("op_update_source");
                    }
                    break;
                case CopyOp::QUERY:
                    for (size_t i = 0; i < slots.size() && res.ok; ++i)
                        if (slots[i].obj && !slots[i].moved_from) check(i, "query");
                    break;
            }
        } catch (const std::exception &e) {
            res.fail(std::string(op_names[op.kind]) + " threw: " + e.what());
        }
    }
    res.nontrivial = saw_copy_destroy_query;
    if (saw_copy_destroy_query) res.label("nt_copy_destroy_source_query");
    return res;
}

static CaseResult run(const RunCtx &ctx, const Tape &tape, Tape &canon) {
    TapeReader t(tape);
    unsigned size_hint = (unsigned) t.below(101);
    CaseResult r;
    auto S = [&](auto subj, const char *nm) {
        subj.name = nm;
        return subj;
    };
    switch (t.below(14)) {
        case 0: r = run_copy(ctx, t, size_hint, S(StaticSubject<pgm::PGMIndex<uint32_t, 4, 4>, uint32_t>(), "PGMIndex<uint32_t,4,4>")); break;
        case 1: r = run_copy(ctx, t, size_hint, S(StaticSubject<pgm::PGMIndex<int64_t, 1, 0, double>, int64_t>(), "PGMIndex<int64_t,1,0,double>")); break;
        case 2: r = run_copy(ctx, t, size_hint, S(StaticSubject<pgm::CompressedPGMIndex<uint32_t, 4, 4>, uint32_t>(), "CompressedPGMIndex<uint32_t,4,4>")); break;
        case 3: r = run_copy(ctx, t, size_hint, S(StaticSubject<pgm::CompressedPGMIndex<uint64_t, 1, 0>, uint64_t>(), "CompressedPGMIndex<uint64_t,1,0>")); break;
        case 4: r = run_copy(ctx, t, size_hint, S(StaticSubject<pgm::CompressedPGMIndex<uint32_t, 2, 256, double>, uint32_t>(), "CompressedPGMIndex<uint32_t,2,256,double>")); break;
        case 5: r = run_copy(ctx, t, size_hint, S(StaticSubject<pgm::BucketingPGMIndex<uint32_t, 4, 128, 0>, uint32_t>(), "BucketingPGMIndex<uint32_t,4,128,0>")); break;
        case 6: r = run_copy(ctx, t, size_hint, S(StaticSubject<pgm::BucketingPGMIndex<uint64_t, 1, 100, 32>, uint64_t>(), "BucketingPGMIndex<uint64_t,1,100,32>")); break;
        case 7: r = run_copy(ctx, t, size_hint, S(StaticSubject<pgm::EliasFanoPGMIndex<uint32_t, 4>, uint32_t>(), "EliasFanoPGMIndex<uint32_t,4>")); break;
        case 8: r = run_copy(ctx, t, size_hint, S(StaticSubject<pgm::EliasFanoPGMIndex<uint64_t, 1, double>, uint64_t>(), "EliasFanoPGMIndex<uint64_t,1,double>")); break;
        case 9: r = run_copy(ctx, t, size_hint, MdSubject<2, uint32_t>()); break;
        case 10: r = run_copy(ctx, t, size_hint, MdSubject<3, uint64_t>()); break;
        case 11: r = run_copy(ctx, t, size_hint, DynSubject<uint32_t, uint32_t>()); break;
        case 12: r = run_copy(ctx, t, size_hint, DynSubject<int64_t, std::string>()); break;
        default: r = run_copy(ctx, t, size_hint, DynSubject<uint64_t, uint32_t>()); break;
    }
    canon = t.canon();
    return r;
}

static const char *rule(const std::string &) {
    return "cases: two independently generated objects (the second one large in 1/4 of the cases) of {PGMIndex, CompressedPGMIndex (EpsilonRecursive 0, 4, 256), BucketingPGMIndex, EliasFanoPGMIndex, MultidimensionalPGMIndex, "
           "DynamicPGMIndex (after a generated history)} built from generated data, then a generated script of 4..17 steps over {copy-construct, copy-assign "
           "(incl. self-assignment), move-construct, move-assign (each only if the class provides it), destroy any object, overwrite freed memory with a "
           "pattern, update a source (Dynamic), query all}. oracle: the digest of all answers (search over the derived query set; contains + box ranges; "
           "traversal + find + lower_bound + range) of every live value equals the digest recorded for its lineage; AddressSanitizer silent. non-trivial: "
           "a copy/move was queried after its source had been destroyed; distinct by canonical tape hash";
}

const Engine ENGINE = {"e_copy", 768, &run, &rule};
} // namespace vf
