// e_reject: C20 — reserved values and invalid arguments are rejected, never silently indexed.
#pragma once
#include "../common/engine.hpp"
#include "../common/keygen.hpp"
#include <sstream>

namespace vf {
using RejFn = CaseResult (*)(const RunCtx &, TapeReader &, unsigned size_hint);
CaseResult reject_static(const RunCtx &, TapeReader &, unsigned);
CaseResult reject_dynamic(const RunCtx &, TapeReader &, unsigned);
CaseResult reject_misc(const RunCtx &, TapeReader &, unsigned);

/// Position of the injected violation inside a sequence of length len: first, last and their neighbours are over-represented
/// (a check that skips the first or the last element is the classic way such validation goes wrong), the rest is uniform.
inline size_t pick_pos(TapeReader &t, size_t len) {
    if (len <= 1) {
        t.below(1);
        t.below(1);
        return 0;
    }
    static const unsigned w[] = {3, 3, 1, 1, 8};
    size_t k = t.weighted(w), u = t.below(len);
    switch (k) {
        case 0: return 0;
        case 1: return len - 1;
        case 2: return 1;
        case 3: return len - 2;
        default: return u;
    }
}

/// Runs f and classifies what it threw.
enum class Thrown { Nothing, InvalidArgument, LogicError, OtherStd, Unknown };
template<typename F>
Thrown thrown_by(F &&f, std::string &what) {
    try {
        f();
    } catch (const std::invalid_argument &e) {
        what = e.what();
        return Thrown::InvalidArgument;
    } catch (const std::logic_error &e) {
        what = e.what();
        return Thrown::LogicError;
    } catch (const std::exception &e) {
        what = e.what();
        return Thrown::OtherStd;
    } catch (...) {
        return Thrown::Unknown;
    }
    return Thrown::Nothing;
}
inline const char *thrown_name(Thrown t) {
    switch (t) {
        case Thrown::Nothing: return "nothing (accepted)";
        case Thrown::InvalidArgument: return "std::invalid_argument";
        case Thrown::LogicError: return "std::logic_error";
        case Thrown::OtherStd: return "another std::exception";
        default: return "a non-standard exception";
    }
}
} // namespace vf
