// V1: static indexes (and the C wrapper) over data that contains the reserved largest key value.
#include "reject.hpp"
#include "pgm/pgm_index_variants.hpp"
#include "cpgm.h"
#include <fstream>
#include <unistd.h>

namespace vf {

template<typename K>
K reserved_value() {
    if constexpr (std::is_floating_point_v<K>) return std::numeric_limits<K>::infinity();
    else return std::numeric_limits<K>::max();
}

template<typename K, typename Build>
CaseResult reserved_case(const RunCtx &ctx, TapeReader &t, unsigned size_hint, const char *cls, Build build) {
    CaseResult res;
    KeyMeta meta;
    GenOpts o;
    o.eps = 4;
    o.size_hint = std::min(size_hint, 85u);
    std::vector<K> keys = gen_keys<K>(t, o, meta);
    size_t k = 1 + (t.chance(1, 3) ? t.below(40) : 0); // copies of the reserved value (sorted data: they are at the end)
    bool only_reserved = t.chance(1, 16);
    if (only_reserved) keys.clear();
    const size_t n_valid = keys.size();
    for (size_t i = 0; i < k; ++i) keys.push_back(reserved_value<K>());
    if (ctx.want_desc) {
        std::ostringstream d;
        d << "reserved value in data: " << cls << "<" << type_name<K>() << "> valid_keys=" << n_valid << " reserved_copies=" << k << " threads=" << meta.threads
          << " recipe: " << meta.recipe << "\n";
        res.desc = d.str();
    }
    if (!ctx.execute) return res;
    vf_set_threads(meta.threads);
    std::string what;
    Thrown th = thrown_by([&] { build(keys, ctx); }, what);
    res.label("reserved_key_static");
    res.label(cls);
    if (th != Thrown::InvalidArgument)
        res.fail(std::string(cls) + "<" + type_name<K>() + "> over " + std::to_string(n_valid) + " valid keys followed by " + std::to_string(k) +
                 " copies of the reserved value: expected std::invalid_argument, got " + thrown_name(th) + (what.empty() ? "" : " (" + what + ")"));
    res.nontrivial = n_valid >= 1;
    return res;
}

template<typename K> void b_pgm(const std::vector<K> &v, const RunCtx &) { pgm::PGMIndex<K, 4, 4> x(v.begin(), v.end()); }
template<typename K> void b_pgm0(const std::vector<K> &v, const RunCtx &) { pgm::PGMIndex<K, 64, 0, double> x(v); }
template<typename K> void b_comp(const std::vector<K> &v, const RunCtx &) { pgm::CompressedPGMIndex<K, 4, 4> x(v.begin(), v.end()); }
template<typename K> void b_buck(const std::vector<K> &v, const RunCtx &) { pgm::BucketingPGMIndex<K, 4, 128, 0> x(v.begin(), v.end()); }
template<typename K> void b_ef(const std::vector<K> &v, const RunCtx &) { pgm::EliasFanoPGMIndex<K, 4> x(v.begin(), v.end()); }
template<typename K> void b_map_range(const std::vector<K> &v, const RunCtx &c) { pgm::MappedPGMIndex<K, 4, 4> x(v.begin(), v.end(), c.workdir + "/rej.pgm"); }
template<typename K> void b_map_raw(const std::vector<K> &v, const RunCtx &c) {
    std::string raw = c.workdir + "/rej.raw";
    {
        std::ofstream f(raw, std::ios::binary | std::ios::trunc);
        f.write((const char *) v.data(), v.size() * sizeof(K));
    }
    int base = open("/dev/null", O_RDONLY);
    if (base >= 0) close(base);
    try {
        pgm::MappedPGMIndex<K, 4, 4> x(raw, c.workdir + "/rej2.pgm");
    } catch (...) {
        for (int fd = base; fd >= 0 && fd < base + 16; ++fd) close(fd);
        throw;
    }
    for (int fd = base; fd >= 0 && fd < base + 16; ++fd) close(fd);
}
// the C create functions translate std::invalid_argument into NULL: map NULL back so that one oracle serves all
struct CNull : std::invalid_argument { CNull() : std::invalid_argument("NULL from C create") {} };
void b_c_i32(const std::vector<int32_t> &v, const RunCtx &) { auto h = pgm_index_int32_create(v.data(), v.size(), 8); if (!h) throw CNull(); pgm_index_int32_destroy(h); }
void b_c_u64(const std::vector<uint64_t> &v, const RunCtx &) { auto h = pgm_index_uint64_create(v.data(), v.size(), 64); if (!h) throw CNull(); pgm_index_uint64_destroy(h); }
void b_c_i64(const std::vector<int64_t> &v, const RunCtx &) { auto h = pgm_index_int64_create(v.data(), v.size(), 1); if (!h) throw CNull(); pgm_index_int64_destroy(h); }
void b_c_u32(const std::vector<uint32_t> &v, const RunCtx &) { auto h = pgm_index_uint32_create(v.data(), v.size(), 4096); if (!h) throw CNull(); pgm_index_uint32_destroy(h); }

CaseResult reject_static(const RunCtx &ctx, TapeReader &t, unsigned sh) {
    switch (t.below(22)) {
        case 0: return reserved_case<uint32_t>(ctx, t, sh, "PGMIndex", b_pgm<uint32_t>);
        case 1: return reserved_case<int64_t>(ctx, t, sh, "PGMIndex", b_pgm<int64_t>);
        case 2: return reserved_case<float>(ctx, t, sh, "PGMIndex", b_pgm<float>);
        case 3: return reserved_case<double>(ctx, t, sh, "PGMIndex", b_pgm0<double>);
        case 4: return reserved_case<uint8_t>(ctx, t, sh, "PGMIndex", b_pgm0<uint8_t>);
        case 5: return reserved_case<int16_t>(ctx, t, sh, "PGMIndex", b_pgm<int16_t>);
        case 6: return reserved_case<uint64_t>(ctx, t, sh, "PGMIndex", b_pgm0<uint64_t>);
        case 7: return reserved_case<uint32_t>(ctx, t, sh, "CompressedPGMIndex", b_comp<uint32_t>);
        case 8: return reserved_case<uint64_t>(ctx, t, sh, "CompressedPGMIndex", b_comp<uint64_t>);
        case 9: return reserved_case<uint32_t>(ctx, t, sh, "BucketingPGMIndex", b_buck<uint32_t>);
        case 10: return reserved_case<uint16_t>(ctx, t, sh, "BucketingPGMIndex", b_buck<uint16_t>);
        case 11: return reserved_case<uint32_t>(ctx, t, sh, "EliasFanoPGMIndex", b_ef<uint32_t>);
        case 12: return reserved_case<uint64_t>(ctx, t, sh, "EliasFanoPGMIndex", b_ef<uint64_t>);
        case 13: return reserved_case<int32_t>(ctx, t, sh, "MappedPGMIndex(range)", b_map_range<int32_t>);
        case 14: return reserved_case<uint64_t>(ctx, t, sh, "MappedPGMIndex(range)", b_map_range<uint64_t>);
        case 15: return reserved_case<int32_t>(ctx, t, sh, "MappedPGMIndex(raw file)", b_map_raw<int32_t>);
        case 16: return reserved_case<uint64_t>(ctx, t, sh, "MappedPGMIndex(raw file)", b_map_raw<uint64_t>);
        case 17: return reserved_case<int32_t>(ctx, t, sh, "pgm_index_int32_create", b_c_i32);
        case 18: return reserved_case<uint64_t>(ctx, t, sh, "pgm_index_uint64_create", b_c_u64);
        case 19: return reserved_case<int64_t>(ctx, t, sh, "pgm_index_int64_create", b_c_i64);
        case 20: return reserved_case<uint32_t>(ctx, t, sh, "pgm_index_uint32_create", b_c_u32);
        default: return reserved_case<uint16_t>(ctx, t, sh, "CompressedPGMIndex", b_comp<uint16_t>);
    }
}
} // namespace vf
