#include "reject.hpp"
#ifdef _OPENMP
extern "C" int omp_get_num_procs(void) { return vf::g_fake_procs; }
#endif
namespace vf {
static CaseResult run(const RunCtx &ctx, const Tape &tape, Tape &canon) {
    TapeReader t(tape);
    unsigned size_hint = (unsigned) t.below(101);
    static const unsigned w[] = {4, 5, 3};
    CaseResult r;
    switch (t.weighted(w)) {
        case 0: r = reject_static(ctx, t, size_hint); break;
        case 1: r = reject_dynamic(ctx, t, size_hint); break;
        default: r = reject_misc(ctx, t, size_hint); break;
    }
    canon = t.canon();
    return r;
}
static const char *rule(const std::string &) {
    return "cases: a valid generated input plus exactly one generated violation at a generated position: (a) k>=1 copies of the reserved key (numeric max / +inf) "
           "after 0..2*10^5 valid keys for PGMIndex (7 key types), Compressed, Bucketing, EliasFano, MappedPGMIndex (range and raw-file ctor) and the four C "
           "create functions; (b) DynamicPGMIndex: inversion at position p of the bulk-load, base in 3..255 not a power of two, reserved mapped value in "
           "insert_or_assign after a valid history (container snapshot through the accessor + traversal must be unchanged) or at position p of the bulk-load, "
           "range(lo,hi) with lo>hi; C dynamic create with an inversion / reserved mapped value -> NULL; (c) a coordinate of bit width >= FieldBits at point i, "
           "dimension d; builder add_point with a key <= its predecessor inside a segment; negative epsilon with a signed rank type. oracle: the documented "
           "exception type (any exception for coordinates; NULL from C). positions: first, last, second and last-but-one are over-represented "
           "(3:3:1:1 against 8 for uniform). non-trivial: the valid part has >= 2-3 elements, or the container is non-empty before the rejected call; distinct "
           "by canonical tape hash";
}
const Engine ENGINE = {"e_reject", 512, &run, &rule};
} // namespace vf
