// V2..V5, V9: invalid arguments of DynamicPGMIndex and of the C dynamic create functions.
#include "reject.hpp"
#include "pgm/pgm_index_dynamic.hpp"
#include "cpgm.h"
#include <cstring>
#include <map>

struct pgm::verif::Access {
    template<typename D> static const auto &levels(const D &d) { return d.levels; }
    template<typename D> static unsigned used_levels(const D &d) { return d.used_levels; }
    template<typename D> static size_t pgms_count(const D &d) { return d.pgms.size(); }
    template<typename D> static size_t pgms_bytes(const D &d) { return d.index_size_in_bytes(); }
};

namespace vf {
using Acc = pgm::verif::Access;

template<typename Dyn>
struct Snapshot {
    std::vector<std::vector<std::pair<typename Dyn::key_type, typename Dyn::mapped_type>>> levels;
    std::vector<size_t> caps;
    unsigned used;
    size_t pgms, pgm_bytes;
    std::vector<std::pair<typename Dyn::key_type, typename Dyn::mapped_type>> traversal;
    bool operator==(const Snapshot &o) const {
        return levels == o.levels && used == o.used && pgms == o.pgms && pgm_bytes == o.pgm_bytes && traversal == o.traversal;
    }
};
template<typename Dyn>
Snapshot<Dyn> snap(const Dyn &d) {
    Snapshot<Dyn> s;
    for (auto &L: Acc::levels(d)) {
        s.levels.emplace_back();
        for (auto &it: L) s.levels.back().emplace_back(it.first, it.second);
    }
    s.used = Acc::used_levels(d);
    s.pgms = Acc::pgms_count(d);
    s.pgm_bytes = Acc::pgms_bytes(d);
    size_t guard = 0;
    for (auto it = d.begin(); it != d.end() && guard < 100000; ++it, ++guard) s.traversal.emplace_back(it->first, it->second);
    return s;
}

template<typename K, typename V>
CaseResult dyn_case(const RunCtx &ctx, TapeReader &t, unsigned size_hint) {
    using Dyn = pgm::DynamicPGMIndex<K, V, pgm::PGMIndex<K, 4, 4>>;
    CaseResult res;
    // a valid history first
    KeyMeta meta;
    GenOpts o;
    o.eps = 4;
    o.size_hint = std::min(size_hint, 60u);
    o.allow_threads = false;
    o.max_n = 2500;
    std::vector<K> uni = gen_keys<K>(t, o, meta);
    uni.erase(std::unique(uni.begin(), uni.end()), uni.end());
    const size_t U = uni.size();
    static const unsigned bases[] = {8, 2, 4, 16};
    unsigned base = bases[t.below(4)];
    unsigned buffer_level = (unsigned) t.below(3), index_level = (unsigned) t.below(5);
    unsigned kind = (unsigned) t.below(5); // 0 unsorted bulk, 1 bad base, 2 tombstone in insert, 3 tombstone in bulk, 4 range lo>hi
    size_t n_bulk = t.chance(1, 2) ? t.below(std::min<size_t>(U, 1200) + 1) : 0;
    size_t n_ops = t.below(size_hint < 30 ? 20 : 900);
    size_t pos = t.below(1 << 20);         // position of the violation (reduced modulo the applicable length) ...
    static const unsigned posw[] = {3, 3, 1, 1, 8};
    size_t pos_kind = t.weighted(posw);    // ... unless it is pinned to the first / last / second / last-but-one position
    auto place = [&](size_t len) -> size_t {
        if (len == 0) return 0;
        switch (pos_kind) {
            case 0: return 0;
            case 1: return len - 1;
            case 2: return std::min<size_t>(1, len - 1);
            case 3: return len >= 2 ? len - 2 : 0;
            default: return pos % len;
        }
    };
    unsigned bad_base = 3 + (unsigned) t.below(253);
    while ((bad_base & (bad_base - 1)) == 0) ++bad_base;
    SplitMix pr(t.bits(64));
    const V tomb = std::numeric_limits<V>::max();

    if (ctx.want_desc) {
        static const char *kn[] = {"unsorted bulk-load range", "base not a power of two", "reserved mapped value in insert_or_assign", "reserved mapped value inside the bulk-load",
                                   "range(lo,hi) with lo>hi"};
        std::ostringstream d;
        d << "DynamicPGMIndex<" << type_name<K>() << "," << (sizeof(V) == 4 ? "uint32_t" : sizeof(V) == 2 ? "int16_t" : "int64_t") << "> base=" << base << " buffer_level="
          << buffer_level << " index_level=" << index_level << " universe=" << U << " bulk=" << n_bulk << " valid_ops_before=" << n_ops << " violation=" << kn[kind]
          << " at=" << pos << (kind == 1 ? " bad_base=" + std::to_string(bad_base) : "") << "\n";
        res.desc = d.str();
    }
    if (!ctx.execute) return res;

    auto mkval = [&](uint64_t x) { return (V) (x % 30000); }; // never the tombstone
    std::vector<std::pair<K, V>> bulk;
    for (size_t i = 0; i < n_bulk; ++i) bulk.emplace_back(uni[i * U / std::max<size_t>(n_bulk, 1)], mkval(i + 1));
    std::sort(bulk.begin(), bulk.end(), [](auto &a, auto &b) { return a.first < b.first; });
    std::string what;
    auto expect = [&](Thrown got, const std::string &ctxmsg) {
        if (got != Thrown::InvalidArgument)
            res.fail(ctxmsg + ": expected std::invalid_argument, got " + thrown_name(got) + (what.empty() ? "" : " (" + what + ")"));
    };

    if (kind == 0) { // unsorted pair at position p of the bulk-load
        res.label("unsorted_bulk_load");
        std::vector<std::pair<K, V>> dist;
        for (auto &p: bulk)
            if (dist.empty() || dist.back().first != p.first) dist.push_back(p);
        if (dist.size() < 2) {
            res.discard = true;
            return res;
        }
        size_t p = place(dist.size() - 1);
        std::swap(dist[p], dist[p + 1]); // now dist[p].first > dist[p+1].first
        Thrown th = thrown_by([&] { Dyn d(dist.begin(), dist.end(), (uint8_t) base, (uint8_t) buffer_level, (uint8_t) index_level); }, what);
        expect(th, "bulk-load of " + std::to_string(dist.size()) + " pairs with an inversion at position " + std::to_string(p));
        res.nontrivial = dist.size() >= 3;
        if (p == 0) res.label("violation_at_first_position");
        return res;
    }
    if (kind == 1) {
        res.label("base_not_power_of_two");
        Thrown th = thrown_by([&] { Dyn d((uint8_t) bad_base, (uint8_t) buffer_level, (uint8_t) index_level); }, what);
        expect(th, "DynamicPGMIndex(base=" + std::to_string(bad_base) + ")");
        if (res.ok && !bulk.empty()) {
            th = thrown_by([&] { Dyn d(bulk.begin(), bulk.end(), (uint8_t) bad_base, (uint8_t) buffer_level, (uint8_t) index_level); }, what);
            expect(th, "DynamicPGMIndex(first,last,base=" + std::to_string(bad_base) + ")");
        }
        res.nontrivial = true;
        return res;
    }
    if (kind == 3) {
        res.label("tombstone_in_bulk_load");
        if (bulk.empty()) bulk.emplace_back(uni[0], mkval(1));
        size_t p = place(bulk.size());
        bulk[p].second = tomb;
        Thrown th = thrown_by([&] { Dyn d(bulk.begin(), bulk.end(), (uint8_t) base, (uint8_t) buffer_level, (uint8_t) index_level); }, what);
        expect(th, "bulk-load of " + std::to_string(bulk.size()) + " pairs with the reserved mapped value at position " + std::to_string(p));
        res.nontrivial = bulk.size() >= 2;
        if (p == 0) res.label("violation_at_first_position");
        if (p + 1 == bulk.size()) res.label("violation_at_last_position");
        return res;
    }
    // kinds 2 and 4 need a live container with a history
    std::unique_ptr<Dyn> d;
    try {
        if (bulk.empty()) d.reset(new Dyn((uint8_t) base, (uint8_t) buffer_level, (uint8_t) index_level));
        else d.reset(new Dyn(bulk.begin(), bulk.end(), (uint8_t) base, (uint8_t) buffer_level, (uint8_t) index_level));
        for (size_t i = 0; i < n_ops; ++i) {
            K k = uni[pr.below(U)];
            if (pr.below(4) == 0) d->erase(k);
            else d->insert_or_assign(k, mkval(pr.next()));
        }
    } catch (const std::exception &e) {
        res.fail(std::string("valid history threw: ") + e.what());
        return res;
    }
    if (kind == 2) {
        res.label("tombstone_in_insert");
        Snapshot<Dyn> before = snap(*d);
        K k = uni[pos % U];
        Thrown th = thrown_by([&] { d->insert_or_assign(k, tomb); }, what);
        expect(th, "insert_or_assign(" + key_str(k) + ", reserved value) after " + std::to_string(n_ops) + " valid updates");
        if (res.ok) {
            Snapshot<Dyn> after = snap(*d);
            if (!(before == after)) res.fail("the rejected insert_or_assign(" + key_str(k) + ", reserved value) changed the container (levels / used_levels / indexes / traversal differ)");
        }
        res.nontrivial = !before.traversal.empty();
        if (res.nontrivial) res.label("nonempty_before_rejected_call");
        return res;
    }
    // kind 4
    res.label("range_lo_gt_hi");
    if (U < 2) {
        res.discard = true;
        return res;
    }
    size_t a = pos % (U - 1), b = a + 1 + pr.below(U - 1 - a);
    Thrown th = thrown_by([&] { auto r = d->range(uni[b], uni[a]); (void) r; }, what);
    expect(th, "range(" + key_str(uni[b]) + ", " + key_str(uni[a]) + ")");
    res.nontrivial = n_ops + bulk.size() > 0;
    return res;
}

// V9: C dynamic create with an unsorted pair / the reserved mapped value must return NULL
template<typename T, typename P, typename H>
CaseResult c_dyn_case(const RunCtx &ctx, TapeReader &t, unsigned size_hint, const char *name, H *(*create)(const P *, size_t), void (*destroy)(H *)) {
    CaseResult res;
    KeyMeta meta;
    GenOpts o;
    o.eps = 4;
    o.size_hint = std::min(size_hint, 60u);
    o.allow_threads = false;
    o.max_n = 2500;
    std::vector<T> uni = gen_keys<T>(t, o, meta);
    uni.erase(std::unique(uni.begin(), uni.end()), uni.end());
    bool unsorted = t.chance(1, 2);
    size_t pos = t.below(1 << 20);
    static const unsigned posw[] = {3, 3, 1, 1, 8};
    size_t pos_kind = t.weighted(posw);
    auto place = [&](size_t len) -> size_t {
        if (len == 0) return 0;
        switch (pos_kind) {
            case 0: return 0;
            case 1: return len - 1;
            case 2: return std::min<size_t>(1, len - 1);
            case 3: return len >= 2 ? len - 2 : 0;
            default: return pos % len;
        }
    };
    if (ctx.want_desc) {
        std::ostringstream d;
        d << name << " over " << uni.size() << " pairs, violation=" << (unsorted ? "inversion" : "reserved mapped value") << " at=" << pos << "\n";
        res.desc = d.str();
    }
    if (!ctx.execute) return res;
    std::vector<P> pairs;
    for (size_t i = 0; i < uni.size(); ++i) pairs.push_back({uni[i], (T) (i % 1000)});
    size_t p;
    if (unsorted) {
        if (pairs.size() < 2) {
            res.discard = true;
            return res;
        }
        p = place(pairs.size() - 1);
        std::swap(pairs[p], pairs[p + 1]);
    } else {
        p = place(pairs.size());
        pairs[p].second = std::numeric_limits<T>::max();
    }
    res.label("c_dynamic_create");
    H *h = nullptr;
    std::string what;
    Thrown th = thrown_by([&] { h = create(pairs.data(), pairs.size()); }, what);
    if (th != Thrown::Nothing) res.fail(std::string(name) + " let an exception escape the C boundary: " + what);
    else if (h != nullptr) {
        destroy(h);
        res.fail(std::string(name) + " returned a handle for " + std::to_string(pairs.size()) + " pairs with " + (unsorted ? "an inversion" : "the reserved mapped value") +
                 " at position " + std::to_string(p) + " (expected NULL)");
    }
    res.nontrivial = pairs.size() >= 3;
    if (p == 0) res.label("violation_at_first_position");
    return res;
}

CaseResult reject_dynamic(const RunCtx &ctx, TapeReader &t, unsigned sh) {
    switch (t.below(7)) {
        case 0: return dyn_case<uint32_t, uint32_t>(ctx, t, sh);
        case 1: return dyn_case<int64_t, int64_t>(ctx, t, sh);
        case 2: return dyn_case<uint64_t, int16_t>(ctx, t, sh);
        case 3: return dyn_case<int32_t, uint32_t>(ctx, t, sh);
        case 4: return c_dyn_case<int32_t, pair_int32_t, dynamic_pgm_index_int32_t>(ctx, t, sh, "dynamic_pgm_index_int32_create", dynamic_pgm_index_int32_create, dynamic_pgm_index_int32_destroy);
        case 5: return c_dyn_case<int64_t, pair_int64_t, dynamic_pgm_index_int64_t>(ctx, t, sh, "dynamic_pgm_index_int64_create", dynamic_pgm_index_int64_create, dynamic_pgm_index_int64_destroy);
        default: return c_dyn_case<uint32_t, pair_uint32_t, dynamic_pgm_index_uint32_t>(ctx, t, sh, "dynamic_pgm_index_uint32_create", dynamic_pgm_index_uint32_create, dynamic_pgm_index_uint32_destroy);
    }
}
} // namespace vf
