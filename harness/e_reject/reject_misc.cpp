// V6..V8: coordinates too wide for the Morton encoder, non-increasing builder keys, negative epsilon.
#include "reject.hpp"
#include "pgm/pgm_index_variants.hpp"
#include <tuple>

namespace vf {

/// S is the element type of the tuples handed to the constructor: T itself, or a wider type (the coordinate is then too wide for T as
/// well as for the encoder; the library has to judge the value it was given, not a conversion of it).
template<uint8_t D, typename T, typename Tuple, typename S = T>
CaseResult md_case(const RunCtx &ctx, TapeReader &t, unsigned size_hint) {
    CaseResult res;
    constexpr unsigned field_bits = std::numeric_limits<T>::digits / D;
    const uint64_t cmax = (uint64_t(1) << (field_bits - 1)) - 1;
    size_t n = 1 + t.below(size_hint < 30 ? 8 : 400);
    size_t at = pick_pos(t, n);
    size_t dim = t.below(D);
    // too wide: bit width >= FieldBits, from just too wide up to the whole type
    unsigned extra = (unsigned) t.below(std::numeric_limits<S>::digits - (field_bits - 1));
    uint64_t bad = (uint64_t(1) << (field_bits - 1 + extra));
    if (t.chance(1, 2)) bad |= t.bits(field_bits - 1 + extra);
    SplitMix pr(t.bits(64));
    if (ctx.want_desc) {
        std::ostringstream d;
        d << "MultidimensionalPGMIndex<" << (int) D << "," << (sizeof(T) == 4 ? "uint32_t" : "uint64_t") << ",16> (points given as uint" << sizeof(S) * 8 << "_t tuples) over " << n << " points, coordinate " << bad << " (bit width "
          << 64 - __builtin_clzll(bad) << " >= FieldBits " << field_bits << ") at point " << at << " dimension " << dim << "\n";
        res.desc = d.str();
    }
    if (!ctx.execute) return res;
    std::vector<Tuple> pts(n);
    for (size_t i = 0; i < n; ++i) {
        uint64_t c[4];
        for (size_t d = 0; d < 4; ++d) c[d] = pr.next() & cmax;
        if (i == at) c[dim] = bad;
        if constexpr (D == 2) pts[i] = Tuple(S(c[0]), S(c[1]));
        else if constexpr (D == 3) pts[i] = Tuple(S(c[0]), S(c[1]), S(c[2]));
        else pts[i] = Tuple(S(c[0]), S(c[1]), S(c[2]), S(c[3]));
    }
    std::string what;
    Thrown th = thrown_by([&] { pgm::MultidimensionalPGMIndex<D, T, 16> x(pts.begin(), pts.end()); }, what);
    res.label("coordinate_too_wide");
    if (sizeof(S) > sizeof(T)) res.label("coordinates_given_in_a_wider_type");
    if (sizeof(S) < sizeof(T)) res.label("coordinates_given_in_a_narrower_type");
    if (th == Thrown::Nothing) res.fail("a coordinate of bit width " + std::to_string(64 - __builtin_clzll(bad)) + " (FieldBits " + std::to_string(field_bits) + ") at point " +
                                        std::to_string(at) + " dimension " + std::to_string(dim) + " was accepted");
    res.nontrivial = n >= 3;
    return res;
}

template<typename K>
CaseResult builder_case(const RunCtx &ctx, TapeReader &t, unsigned size_hint) {
    CaseResult res;
    KeyMeta meta;
    GenOpts o;
    o.eps = 4;
    o.size_hint = std::min(size_hint, 60u);
    o.allow_threads = false;
    o.max_n = 2000;
    std::vector<K> keys = gen_keys<K>(t, o, meta);
    keys.erase(std::unique(keys.begin(), keys.end()), keys.end());
    size_t eps = t.below(64);
    bool neg_eps = t.chance(1, 4);
    int64_t neps = -(int64_t) (1 + t.loguniform(40));
    size_t at = t.below(keys.size());   // the bad key is fed after keys[0..at]
    size_t back = t.below(at + 1);      // and equals keys[at - back] (<= the predecessor)
    if (ctx.want_desc) {
        std::ostringstream d;
        if (neg_eps) d << "OptimalPiecewiseLinearModel<" << type_name<K>() << ",int64_t>(epsilon=" << neps << ")\n";
        else d << "OptimalPiecewiseLinearModel<" << type_name<K>() << ",size_t>(eps=" << eps << "): " << at + 1 << " increasing keys, then key[" << at - back << "] again\n";
        res.desc = d.str();
    }
    if (!ctx.execute) return res;
    std::string what;
    if (neg_eps) {
        res.label("negative_epsilon");
        Thrown th = thrown_by([&] { pgm::internal::OptimalPiecewiseLinearModel<K, int64_t> m(neps); }, what);
        if (th != Thrown::InvalidArgument) res.fail("negative epsilon " + std::to_string(neps) + ": expected std::invalid_argument, got " + thrown_name(th));
        res.nontrivial = true;
        return res;
    }
    res.label("builder_non_increasing_key");
    pgm::internal::OptimalPiecewiseLinearModel<K, size_t> m(eps);
    size_t segs = 1;
    for (size_t i = 0; i <= at; ++i)
        if (!m.add_point(keys[i], i)) {
            (void) m.get_segment();
            m.add_point(keys[i], i);
            ++segs;
        }
    K badk = keys[at - back];
    Thrown th = thrown_by([&] { m.add_point(badk, at + 1); }, what);
    if (th != Thrown::LogicError) // std::invalid_argument derives from logic_error but is classified first: accept only a plain logic_error or subclass
        if (th != Thrown::InvalidArgument)
            res.fail("add_point(" + key_str(badk) + ") after key " + key_str(keys[at]) + " inside a segment: expected std::logic_error, got " + thrown_name(th));
    res.nontrivial = at >= 2 && segs >= 1;
    return res;
}

CaseResult reject_misc(const RunCtx &ctx, TapeReader &t, unsigned sh) {
    switch (t.below(17)) {
        // coordinates handed over in a NARROWER type than T whose width still reaches FieldBits: the top bit of the element type makes the
        // value too wide for the encoder although "the type fits"
        case 13: return md_case<2, uint64_t, std::tuple<uint32_t, uint32_t>, uint32_t>(ctx, t, sh);
        case 14: return md_case<4, uint64_t, std::tuple<uint16_t, uint16_t, uint16_t, uint16_t>, uint16_t>(ctx, t, sh);
        case 15: return md_case<2, uint32_t, std::tuple<uint16_t, uint16_t>, uint16_t>(ctx, t, sh);
        case 16: return md_case<3, uint64_t, std::tuple<uint32_t, uint32_t, uint32_t>, uint32_t>(ctx, t, sh);
        case 10: return md_case<2, uint32_t, std::tuple<uint64_t, uint64_t>, uint64_t>(ctx, t, sh);
        case 11: return md_case<3, uint32_t, std::tuple<uint64_t, uint64_t, uint64_t>, uint64_t>(ctx, t, sh);
        case 12: return md_case<2, uint32_t, std::pair<uint64_t, uint64_t>, uint64_t>(ctx, t, sh);
        case 0: return md_case<2, uint32_t, std::tuple<uint32_t, uint32_t>>(ctx, t, sh);
        case 1: return md_case<3, uint32_t, std::tuple<uint32_t, uint32_t, uint32_t>>(ctx, t, sh);
        case 2: return md_case<4, uint64_t, std::tuple<uint64_t, uint64_t, uint64_t, uint64_t>>(ctx, t, sh);
        case 3: return md_case<2, uint64_t, std::tuple<uint64_t, uint64_t>>(ctx, t, sh);
        case 4: return builder_case<uint32_t>(ctx, t, sh);
        case 5: return builder_case<int64_t>(ctx, t, sh);
        case 6: return builder_case<double>(ctx, t, sh);
        case 7: return builder_case<uint64_t>(ctx, t, sh);
        case 8: return builder_case<int16_t>(ctx, t, sh);
        default: return md_case<3, uint64_t, std::tuple<uint64_t, uint64_t, uint64_t>>(ctx, t, sh);
    }
}
} // namespace vf
