// e_variants: CompressedPGMIndex (C08), BucketingPGMIndex (C09), EliasFanoPGMIndex (C10) — unsigned integer keys.
#pragma once
#include "../common/engine.hpp"
#include "../common/keygen.hpp"
#include <deque>
#include "pgm/pgm_index_variants.hpp"
#include <sstream>

#ifndef VF_KF3_EXCLUDE
#define VF_KF3_EXCLUDE 1
#endif

namespace vf {

using VarFn = CaseResult (*)(const RunCtx &, TapeReader &, unsigned size_hint);

struct RangeStats {
    uint64_t nq = 0, absent = 0;
    bool gap_after_dup = false, far = false;
};

/// O-range (a, b, d, e) of DESIGN.md section 4 for one query. Returns false after recording the failure.
template<typename K>
bool check_range(CaseResult &res, const std::vector<K> &keys, const K &q, const pgm::ApproxPos &r, size_t eps, RangeStats &st) {
    const size_t n = keys.size();
    size_t L = size_t(std::lower_bound(keys.begin(), keys.end(), q) - keys.begin());
    bool present = L < n && keys[L] == q;
    ++st.nq;
    auto where = [&]() {
        std::ostringstream m;
        m << "query=" << key_str(q) << " search={pos=" << r.pos << ",lo=" << r.lo << ",hi=" << r.hi << "} lower_bound=" << L << " n=" << n
          << (present ? " (present)" : " (absent)");
        return m.str();
    };
    if (!(r.lo <= r.hi && r.hi <= n)) {
        res.fail("range not inside [0,n]: " + where());
        return false;
    }
    if (r.hi - r.lo > 2 * eps + 2) {
        res.fail("range wider than 2*eps+2: " + where());
        return false;
    }
    size_t Lr = size_t(std::lower_bound(keys.begin() + r.lo, keys.begin() + r.hi, q) - keys.begin());
    if (Lr != L) {
        res.fail("lower_bound in [lo,hi) = " + std::to_string(Lr) + " differs from global: " + where());
        return false;
    }
    if (present && !(r.lo <= L && L < r.hi)) {
        res.fail("first occurrence of a present key not strictly inside [lo,hi): " + where());
        return false;
    }
    if (!present) {
        ++st.absent;
        if (L >= 2 && keys[L - 1] == keys[L - 2]) st.gap_after_dup = true;
        long double dist = 1e300L;
        if (L < n) dist = std::min(dist, (long double) keys[L] - (long double) q);
        if (L > 0) dist = std::min(dist, (long double) q - (long double) keys[L - 1]);
        if (dist > 1099511627776.0L) st.far = true;
    }
    return true;
}


/// In 1 case out of 5 the index under test is not freshly constructed: an object already holding an index over OTHER generated data
/// (large and bimodal for 64-bit keys in half of these cases) is move- or copy-assigned the index of the case's data first. The
/// search contract is about the data an object holds now, whatever it held before.
/// A second object of the same class over other keys (the "prior" content), built AFTER the index under test and alive while that one
/// is queried; it is queried itself afterwards.  An object's answers may depend on nothing but its own data.
template<typename Index, typename K>
struct Bystander {
    std::unique_ptr<Index> idx;
    std::vector<K> keys;
};

template<typename Index, typename K>
std::unique_ptr<Index> build_maybe_over_prior(TapeReader &t, const GenOpts &o, const std::vector<K> &keys, CaseResult &res, bool execute,
                                              Bystander<Index, K> *by = nullptr) {
    bool over_prior = t.chance(1, 5);
    // the range handed to the constructor: vector iterators (1/2), std::deque iterators (random access, not contiguous), raw pointers
    const unsigned src = (unsigned) t.below(4);
    auto construct = [&](const std::vector<K> &ks) -> Index * {
        if (src == 2 && ks.size() <= (size_t(1) << 20)) {
            std::deque<K> dq(ks.begin(), ks.end());
            res.label("source_deque_iterators");
            return new Index(dq.begin(), dq.end());
        }
        if (src == 3) {
            res.label("source_raw_pointers");
            return new Index(ks.data(), ks.data() + ks.size());
        }
        return new Index(ks.begin(), ks.end());
    };
    if (!over_prior) return execute ? std::unique_ptr<Index>(construct(keys)) : nullptr;
    GenOpts o2 = o;
    o2.xkeys = nullptr;
    o2.xthreads = nullptr;
    o2.xprocs = nullptr;
    o2.pow2_span_edge = false;
    o2.span_multiple_edge = 0;
    o2.allow_giant = false;
    o2.ef_bimodal = false;
    o2.force_bimodal = sizeof(K) == 8 && t.chance(1, 2);
    o2.size_hint = t.chance(1, 2) ? 100 : o.size_hint;
    KeyMeta m2;
    const int procs_before = g_fake_procs;
    std::vector<K> prior = gen_keys<K>(t, o2, m2);
    bool by_copy = t.chance(1, 2);
    bool keep_bystander = t.chance(1, 2);
    g_fake_procs = procs_before;
    if (!execute) return nullptr;
    const K cap = std::numeric_limits<K>::max() - 1;
    (void) cap;
    std::unique_ptr<Index> obj(new Index(prior.begin(), prior.end()));
    if (by_copy) {
        std::unique_ptr<Index> fresh(construct(keys));
        *obj = *fresh;
    } else {
        std::unique_ptr<Index> fresh(construct(keys));
        *obj = std::move(*fresh);
    }
    res.label(by_copy ? "assigned_over_prior_content_by_copy" : "assigned_over_prior_content_by_move");
    if (by && keep_bystander && prior.size() <= (size_t(1) << 20)) {
        by->idx.reset(new Index(prior.begin(), prior.end()));
        by->keys = std::move(prior);
        res.label("bystander_index_alive");
    }
    return obj;
}

template<typename Index, typename K>
void check_bystander(CaseResult &res, Bystander<Index, K> &by, size_t eps, const std::vector<K> &queries, bool mem) {
    if (!by.idx || !res.ok) return;
    RangeStats st;
    size_t done = 0;
    auto one = [&](const K &q) {
        pgm::ApproxPos r = by.idx->search(q);
        if (mem) return true;
        if (check_range(res, by.keys, q, r, eps, st)) return true;
        res.msg = "second index (built after, alive with the first): " + res.msg;
        return false;
    };
    for (const K &q: queries)
        if (done++ >= 150 || !one(q)) break;
    for (size_t i = 0; res.ok && i < by.keys.size(); i += 1 + by.keys.size() / 150)
        if (!one(by.keys[i])) break;
}

inline void common_labels(CaseResult &res, const KeyMeta &meta) {
    res.label(meta.size_class);
    if (meta.chunks > 1) res.label("chunked");
    if (meta.has_dup) res.label("dups");
    if (meta.seam_surgery) res.label("seam_surgery");
    if (meta.top_reached) res.label("has_max_minus_1");
    if (meta.starts_lowest) res.label("starts_at_0");
    if (meta.excluded_known) res.label("excluded_known_KF4_run_of_2^24_or_more_capped");
}

template<typename K>
void fill_desc(const RunCtx &ctx, CaseResult &res, const std::string &head, const std::vector<K> &keys, const KeyMeta &meta) {
    if (!ctx.want_desc) return;
    res.desc = head + " " + describe_keys(keys, meta);
    std::string xk = keys_to_text(keys);
    if (!xk.empty()) {
        res.xdata.emplace_back("xkeys", xk);
        res.xdata.emplace_back("xthreads", std::to_string(meta.threads));
            res.xdata.emplace_back("xprocs", std::to_string(meta.procs));
    }
}

// ---------------------------------------------------------------------------------------------- C08 Compressed

template<typename K> constexpr size_t comp_threshold() { return 8 * 64 / sizeof(K); }
template<typename K>
constexpr size_t comp_erec(int kind) {
    switch (kind) {
        case 0: return 0;
        case 1: return 1;
        case 2: return 4;
        case 3: return comp_threshold<K>();
        case 4: return comp_threshold<K>() + 1;
        default: return 256;
    }
}

// X(Epsilon, ER kind, Floating)
#define VF_COMP_CONFIGS(X) \
    X(1, 0, float) X(1, 1, float) X(2, 2, double) X(8, 3, float) X(8, 4, float) X(128, 5, float) X(2, 4, double) X(1, 5, float) \
    X(128, 0, double) X(2, 1, double) X(4, 5, double) X(1, 4, float)
constexpr int VF_COMP_NCFG = 12;

template<typename K, size_t Eps, size_t ER, typename F>
CaseResult run_compressed(const RunCtx &ctx, TapeReader &t, unsigned size_hint) {
    CaseResult res;
    KeyMeta meta;
    GenOpts o;
    o.eps = Eps;
    o.size_hint = size_hint;
    o.xkeys = ctx.x("xkeys");
    o.xthreads = ctx.x("xthreads");
    o.xprocs = ctx.x("xprocs");
    o.allow_giant = ctx.mode != "mem";
    o.mixed_runs = ctx.mode != "mem";
    o.exact_segments = true;
    std::vector<K> keys = gen_keys<K>(t, o, meta);
    const bool excluded = false; // KF-2 (last key near the numeric maximum) was repaired; nothing is excluded any more
    std::ostringstream head;
    head << "CompressedPGMIndex<" << type_name<K>() << "," << Eps << "," << ER << "," << type_name<F>() << ">";
    fill_desc(ctx, res, head.str(), keys, meta);
    const bool mem = ctx.mode == "mem";

    vf_set_threads(meta.threads);
    using Index = pgm::CompressedPGMIndex<K, Eps, ER, F>;
    std::unique_ptr<Index> idx;
    Bystander<Index, K> bystander;
    try {
        idx = build_maybe_over_prior<Index, K>(t, o, keys, res, ctx.execute, &bystander);
    } catch (const std::exception &e) {
        res.fail(std::string("construction threw on in-domain input: ") + e.what());
        return res;
    }
    if (!ctx.execute) return res;
    common_labels(res, meta);
    if (excluded) res.label("excluded_known_KF2_last_key_within_16_of_max");
    if (ER > comp_threshold<K>()) res.label("binary_search_routing");
    if (ER == 0) res.label("one_level");
    // segments_count() reads levels.back(), which does not exist for a one-segment recursive index (height 1): that call is
    // exercised by the C17 (memory) mode; the search contract of C08 does not need it.
    size_t segs = (ER > 0 && idx->height() == 1) ? 1 : (mem && ER > 0 ? 1 : idx->segments_count());
    if (mem) { // C17: every public operation, also on the smallest index
        volatile size_t sink = idx->segments_count();
        sink = idx->height();
        sink = idx->size_in_bytes();
        (void) sink;
    }
    if (segs >= 3) res.label("ge3_segments");
    if (idx->height() >= 3) res.label("ge3_levels");

    std::vector<K> queries = gen_queries<K>(keys, meta, Eps, false, true);
    RangeStats st;
    for (const K &q: queries) {
        if (q == std::numeric_limits<K>::max()) throw HarnessBug("reserved query");
        pgm::ApproxPos r = idx->search(q);
        if (mem) {
            ++st.nq;
            continue;
        }
        if (!check_range(res, keys, q, r, Eps, st)) break;
    }
    check_bystander(res, bystander, Eps, queries, mem);
    res.sum("queries", st.nq);
    res.nontrivial = segs >= 3 && st.absent >= 1;
    if (mem) res.nontrivial = keys.size() <= 3 || meta.starts_lowest || meta.top_reached || meta.chunks > 1;
    if (st.gap_after_dup) res.label("nt_gap_after_dup_run");
    if (st.far) res.label("nt_far_query");
    return res;
}

// ---------------------------------------------------------------------------------------------- C09 Bucketing

template<typename K, size_t Eps, size_t TLS, uint8_t TLB, typename F>
struct BucketProbe : pgm::BucketingPGMIndex<K, Eps, TLS, TLB, F> {
    using Base = pgm::BucketingPGMIndex<K, Eps, TLS, TLB, F>;
    using Base::Base;
    using Base::segments;
    using Base::top_level;
    using Base::first_key;
    using Base::last_key;
    size_t routed(const K &k) const { return size_t(this->segment_for_key(k) - segments.begin()); }
    /// rightmost segment with key <= k over *all* segments (sentinel excluded)
    size_t responsible(const K &k) const {
        size_t cnt = segments.size() - 1, lo = 0, hi = cnt;
        while (lo < hi) {
            size_t mid = (lo + hi) / 2;
            if (segments[mid].key <= k) lo = mid + 1;
            else hi = mid;
        }
        return lo == 0 ? 0 : lo - 1;
    }
};

template<typename K, size_t Eps, size_t TLS, uint8_t TLB, typename F>
CaseResult run_bucketing(const RunCtx &ctx, TapeReader &t, unsigned size_hint) {
    CaseResult res;
    KeyMeta meta;
    GenOpts o;
    o.eps = Eps;
    o.size_hint = size_hint;
    o.xkeys = ctx.x("xkeys");
    o.xthreads = ctx.x("xthreads");
    o.xprocs = ctx.x("xprocs");
    o.allow_giant = ctx.mode != "mem";
    o.span_multiple_edge = TLS;
    o.pow2_span_edge = true;
    std::vector<K> keys = gen_keys<K>(t, o, meta);
    // bucket-boundary clusters: with probability 1/3 up to three runs of 2*Eps+6 consecutive keys are planted so that they START exactly
    // on (or one below / above) a bucket boundary first + i*step of the table the index will build: a segment then begins right at
    // the boundary, which is where a mis-computed bucket number shows (the span, hence step, is not changed by the insertion)
    if (!ctx.x("xkeys") && keys.size() >= 2 && keys.size() <= 50000 && t.chance(1, 3)) {
        unsigned __int128 first = keys.front(), span = (unsigned __int128) keys.back() - keys.front(), step;
        if ((TLS & (TLS - 1)) == 0) step = (unsigned __int128) 1 << (sizeof(K) * 8 - (64 - __builtin_clzll(TLS)) + 1);
        else step = std::max<unsigned __int128>((span / TLS) + (span % TLS > 0), 1);
        uint64_t nb = (uint64_t) std::min<unsigned __int128>(span / step, 1000000);
        size_t planted = 0;
        for (int c = 0; c < 3 && nb >= 1; ++c) {
            unsigned __int128 b = first + step * (1 + t.below(nb)) + t.below(3) - 1;
            size_t len = 2 * Eps + 6;
            if (b <= first || b + len >= (unsigned __int128) keys.back()) continue;
            for (size_t j = 0; j < len; ++j) keys.push_back((K) (b + j));
            ++planted;
        }
        if (planted) {
            std::sort(keys.begin(), keys.end());
            meta.has_dup = std::adjacent_find(keys.begin(), keys.end()) != keys.end();
            meta.n = keys.size();
            meta.chunks = chunk_count(keys.size(), meta.threads);
            meta.seams.clear();
            for (size_t i = 1; i < meta.chunks; ++i) meta.seams.push_back(i * (keys.size() / meta.chunks));
            meta.recipe += " BOUNDARY_CLUSTERS(" + std::to_string(planted) + ")";
            keys.shrink_to_fit();
        }
    } else if (!ctx.x("xkeys")) {
        t.below(1);
    }
    std::ostringstream head;
    head << "BucketingPGMIndex<" << type_name<K>() << "," << Eps << "," << TLS << "," << (int) TLB << "," << type_name<F>() << ">";
    fill_desc(ctx, res, head.str(), keys, meta);
    const bool mem = ctx.mode == "mem";
    const size_t n = keys.size();

    vf_set_threads(meta.threads);
    using Index = BucketProbe<K, Eps, TLS, TLB, F>;
    std::unique_ptr<Index> idx;
    Bystander<Index, K> bystander;
    try {
        idx = build_maybe_over_prior<Index, K>(t, o, keys, res, ctx.execute, &bystander);
        if (!ctx.execute) return res;
    } catch (const std::invalid_argument &e) {
        if (TLB != 0 && std::string(e.what()).find("TopLevelBitSize") != std::string::npos) {
            res.discard = true; // a fixed cell width too narrow for the segment count is rejected by design
            res.label("discard_toplevel_bitsize_too_narrow");
            return res;
        }
        res.fail(std::string("construction threw on in-domain input: ") + e.what());
        return res;
    } catch (const std::exception &e) {
        res.fail(std::string("construction threw on in-domain input: ") + e.what());
        return res;
    }
    common_labels(res, meta);
    size_t segs = idx->segments_count();
    if (segs >= 4) res.label("ge3_segments");
    if ((TLS & (TLS - 1)) == 0) res.label("pow2_top_level");

    // buckets without a segment start / queries on a bucket boundary (non-trivial rule)
    bool empty_bucket = false, boundary_query = false;
    for (size_t j = 0; j + 1 < idx->top_level.size(); ++j)
        if (idx->top_level[j] == idx->top_level[j + 1]) empty_bucket = true;

    std::vector<K> queries = gen_queries<K>(keys, meta, Eps, false, true);
    // add bucket boundaries first_key + j*step (+-1) as queries
    {
        unsigned __int128 span = (unsigned __int128) keys.back() - keys.front();
        size_t nb = idx->top_level.size() >= 2 ? idx->top_level.size() - 2 : 0;
        if (nb > 0 && nb <= 5000) {
            // bucket width as the index computes it
            unsigned __int128 step;
            if ((TLS & (TLS - 1)) == 0) step = (unsigned __int128) 1 << (sizeof(K) * 8 - (64 - __builtin_clzll(TLS)) + 1);
            else step = std::max<unsigned __int128>((span / TLS) + (span % TLS > 0), 1);
            for (size_t j = 1; j <= nb; ++j) {
                unsigned __int128 b = (unsigned __int128) keys.front() + step * j;
                for (int d = -1; d <= 1; ++d) {
                    unsigned __int128 v = b + d;
                    if (v < (unsigned __int128) std::numeric_limits<K>::max()) {
                        queries.push_back((K) v);
                        if (d == 0 && v <= keys.back()) boundary_query = true;
                    }
                }
            }
        }
    }

    RangeStats st;
    for (const K &q: queries) {
        if (q == std::numeric_limits<K>::max()) throw HarnessBug("reserved query");
        pgm::ApproxPos r = idx->search(q);
        if (mem) {
            ++st.nq;
            continue;
        }
        if (!check_range(res, keys, q, r, Eps, st)) break;
        if (q < keys.front() && !(r.pos == 0 && r.lo == 0 && r.hi == 0)) {
            res.fail("query below the first key must give the empty range at 0: query=" + key_str(q) + " got {" + std::to_string(r.pos) + "," +
                     std::to_string(r.lo) + "," + std::to_string(r.hi) + "}");
            break;
        }
        if (q > keys.back() && !(r.pos == n && r.lo == n && r.hi == n)) {
            res.fail("query above the last key must give the empty range at n: query=" + key_str(q) + " got {" + std::to_string(r.pos) + "," +
                     std::to_string(r.lo) + "," + std::to_string(r.hi) + "} n=" + std::to_string(n));
            break;
        }
        if (q >= keys.front() && q <= keys.back()) {
            size_t got = idx->routed(q), want = idx->responsible(q);
            if (got != want) {
                res.fail("top-level table routed query=" + key_str(q) + " to segment #" + std::to_string(got) + " (key " + key_str(idx->segments[got].key) +
                         "), the rightmost segment starting at or before it is #" + std::to_string(want) + " (key " + key_str(idx->segments[want].key) + ")");
                break;
            }
        }
    }
    check_bystander(res, bystander, Eps, queries, mem);
    res.sum("queries", st.nq);
    res.nontrivial = segs >= 4 && st.absent >= 1 && empty_bucket && boundary_query;
    if (mem) res.nontrivial = keys.size() <= 3 || meta.starts_lowest || meta.top_reached || meta.chunks > 1;
    if (empty_bucket) res.label("nt_bucket_without_segment_start");
    if (boundary_query) res.label("nt_query_on_bucket_boundary");
    if (st.gap_after_dup) res.label("nt_gap_after_dup_run");
    if (st.far) res.label("nt_far_query");
    return res;
}

// ---------------------------------------------------------------------------------------------- C10 Elias-Fano

template<typename K, size_t Eps, typename F>
struct EFProbe : pgm::EliasFanoPGMIndex<K, Eps, F> {
    using Base = pgm::EliasFanoPGMIndex<K, Eps, F>;
    using Base::Base;
    using Base::ef;
    using Base::segments;
};

template<typename K, size_t Eps, typename F>
CaseResult run_ef(const RunCtx &ctx, TapeReader &t, unsigned size_hint) {
    CaseResult res;
    KeyMeta meta;
    GenOpts o;
    o.eps = Eps;
    o.size_hint = size_hint;
    o.xkeys = ctx.x("xkeys");
    o.xthreads = ctx.x("xthreads");
    o.xprocs = ctx.x("xprocs");
    o.allow_giant = ctx.mode != "mem";
    o.pow2_span_edge = true;
    o.ef_bimodal_often = ctx.mode == "mem";
    if (ctx.mode == "mem" && sizeof(K) == 8 && t.chance(1, 5)) o.force_bimodal = true; // C17 runs few cases: a fixed share of them takes the long-superblock paths
    o.ef_bimodal = true; // also under AddressSanitizer (C17): the long-superblock branches of the select supports allocate and index arrays
    o.exact_segments = true;
    std::vector<K> keys = gen_keys<K>(t, o, meta);

    const bool excluded = false; // KF-3 (64-bit keys, first key 0, last key max-1) was repaired; nothing is excluded any more

    std::ostringstream head;
    head << "EliasFanoPGMIndex<" << type_name<K>() << "," << Eps << "," << type_name<F>() << ">";
    fill_desc(ctx, res, head.str(), keys, meta);
    const bool mem = ctx.mode == "mem";

    vf_set_threads(meta.threads);
    using Index = EFProbe<K, Eps, F>;
    // bimodal arrays, 2 in 3: the last key (a far, isolated key: a segment of its own) is moved so that the number of Elias-Fano buckets of
    // the code over the segment keys - the zeros of its high bit vector - is a multiple of 4096 or up to 62 below one.  The select-0
    // support scans whole words, and the padding zeros of the last word then start a superblock of their own.  The geometry is read
    // from a first build of the same array.
    const bool steer_zeros = t.below(3) != 0;
    if (std::string(meta.size_class) == "bimodal" && steer_zeros && !o.xkeys && ctx.execute && keys.size() >= 100) {
        Index probe(keys.begin(), keys.end());
        const size_t ones = probe.ef.low.size(), hs = probe.ef.high.size(), zeros = hs - ones;
        const unsigned wl = probe.ef.wl;
        if (zeros > 8192 && wl >= 1 && wl < 60 && ones >= 2) {
            SplitMix pr2(meta.query_seed ^ 0x5bd1e995);
            // the next multiple above (the last key only moves up), minus r with r < padding bits of the resulting vector
            const size_t mult = (zeros / 4096 + 1) * 4096;
            size_t r = 0, tries = 0;
            do r = pr2.below(63);
            while (++tries < 200 && !(r < (64 - (ones + mult - r) % 64) % 64));
            const unsigned __int128 target = (unsigned __int128) mult - r;
            const unsigned __int128 nu = ((target - 1) << wl) + 1 + (pr2.next() & ((uint64_t(1) << wl) - 1));
            const unsigned __int128 nl = (unsigned __int128) keys.front() + nu - 1;
            const long double ideal = std::log2((long double) nu * 0.6931471805599453L / (long double) ones);
            if (nl > (unsigned __int128) keys[keys.size() - 2] && nl < (unsigned __int128) std::numeric_limits<K>::max() &&
                (unsigned) std::llround(std::max<long double>(ideal, 1.0L)) == wl) {
                keys.back() = (K) nl;
                res.label("ef_bucket_count_steered");
            }
        }
    }
    std::unique_ptr<Index> idx;
    Bystander<Index, K> bystander;
    try {
        idx = build_maybe_over_prior<Index, K>(t, o, keys, res, ctx.execute, &bystander);
    } catch (const std::exception &e) {
        res.fail(std::string("construction threw on in-domain input: ") + e.what());
        return res;
    }
    if (!ctx.execute) return res;
    common_labels(res, meta);
    if (excluded) res.label("excluded_known_KF3_u64_first0_last_maxm1");
    if (meta.pow2_edge) res.label("ef_universe_at_pow2_edge");
    size_t segs = idx->segments_count();
    if (segs >= 4) res.label("ge3_segments");
    // Elias-Fano geometry: low-bit width decides which branch of pred() runs
    {
        unsigned wl = idx->ef.wl;
        res.label(wl == 0 ? "ef_wl_0" : wl < 8 ? "ef_wl_1_7" : wl < 24 ? "ef_wl_8_23" : "ef_wl_ge24");
        // sizes of the succinct structures relative to their block arithmetic (64-entry blocks, 4096-entry superblocks, powers of two)
        size_t hs = idx->ef.high.size(), ones = idx->ef.low.size();
        if (hs >= 8 && ((hs - 2) & (hs - 3)) == 0) res.label("ef_high_size_2^t+2");
        else if (hs >= 8)
            for (int dd = -4; dd <= 4; ++dd)
                if (hs + dd >= 4 && ((hs + dd) & (hs + dd - 1)) == 0) {
                    res.label("ef_high_size_within_4_of_pow2");
                    break;
                }
        if (ones % 64 == 1) res.label("ef_ones_1_mod_64");
        if (ones >= 4096 && ones % 4096 == 0) res.label("ef_ones_multiple_of_4096");
        {
            size_t zeros = hs - ones, pad = (64 - hs % 64) % 64;
            if (zeros >= 4096 && (4096 - zeros % 4096) % 4096 < pad) res.label("ef_zeros_within_padding_of_a_multiple_of_4096");
            if (hs >= 100000) res.label("ef_high_ge_100000_bits");
            if (hs >= 100000 && zeros >= 4096 && (4096 - zeros % 4096) % 4096 < pad) res.label("ef_high_ge_100000_bits_and_zeros_within_padding_of_a_multiple_of_4096");
            if (hs >= 100000) { // does the select-0 support own a FULL long superblock (4096 zeros spanning more than log^4 bits)?
                size_t logn = 1;
                while ((size_t(1) << logn) <= hs) ++logn;
                const size_t logn4 = logn * logn * logn * logn;
                size_t cnt = 0, first_pos = 0;
                bool full_long = false;
                for (size_t i = 0; i < hs && !full_long; ++i)
                    if (!idx->ef.high[i]) {
                        if (cnt == 0) first_pos = i;
                        if (++cnt == 4096) {
                            if (i - first_pos > logn4) full_long = true;
                            cnt = 0;
                        }
                    }
                if (full_long) res.label("ef_select0_full_long_superblock");
                if (full_long && zeros >= 4096 && (4096 - zeros % 4096) % 4096 < pad) res.label("ef_select0_full_long_superblock_and_phantom_block");
            }
        }
        if (ones >= 65 && ones % 64 == 1 && hs >= 8 && ((hs - 2) & (hs - 3)) == 0) res.label("ef_ones_ge65_1_mod_64_and_high_2^t+2");
    }

    std::vector<K> queries = gen_queries<K>(keys, meta, Eps, false, true);
    RangeStats st;
    bool below_first = false, beyond_universe = false, between = false;
    for (const K &q: queries) {
        if (q == std::numeric_limits<K>::max()) throw HarnessBug("reserved query");
        pgm::ApproxPos r = idx->search(q);
        if (mem) {
            ++st.nq;
            continue;
        }
        if (!check_range(res, keys, q, r, Eps, st)) break;
        if (q < keys.front()) below_first = true;
        else if (q > keys.back()) beyond_universe = true;
        else between = true;
    }
    check_bystander(res, bystander, Eps, queries, mem);
    res.sum("queries", st.nq);
    res.nontrivial = segs >= 4 && st.absent >= 1 && below_first && beyond_universe && between;
    if (mem) res.nontrivial = keys.size() <= 3 || meta.starts_lowest || meta.top_reached || meta.chunks > 1;
    if (st.gap_after_dup) res.label("nt_gap_after_dup_run");
    if (st.far) res.label("nt_far_query");
    return res;
}

// X(Epsilon, TopLevelSize, TopLevelBitSize, Floating)
#define VF_BUCK_CONFIGS_8(X) \
    X(1, 2, 0, float) X(1, 3, 0, float) X(4, 4, 8, float) X(4, 7, 16, double) X(128, 8, 32, float) X(1, 100, 0, double) X(4, 128, 16, float) \
    X(2, 5, 64, float)
#define VF_BUCK_CONFIGS(X) \
    VF_BUCK_CONFIGS_8(X) X(1, 550, 0, float) X(4, 1024, 32, float) X(1, 4096, 0, double) X(1, 1024, 8, float)
// X(Epsilon, Floating)
#define VF_EF_CONFIGS(X) X(1, float) X(2, double) X(8, float) X(128, float) X(4, double) X(1, double)
constexpr int VF_EF_NCFG = 6;

#define VF_COMP_FN(E, RK, F) &run_compressed<VF_KEY, E, comp_erec<VF_KEY>(RK), F>,
#define VF_BUCK_FN(E, TLS, TLB, F) &run_bucketing<VF_KEY, E, TLS, TLB, F>,
#define VF_EF_FN(E, F) &run_ef<VF_KEY, E, F>,

struct VariantTables {
    const VarFn *comp;
    int ncomp;
    const VarFn *buck;
    int nbuck;
    const VarFn *ef;
    int nef;
};

} // namespace vf
