// One translation unit per key type: -DVF_KEY=<type> -DVF_KEYID=<identifier> -DVF_KEYBITS=<8|16|32|64>
#include "variants_cfg.hpp"
namespace vf {
#define VF_CAT2(a, b) a##b
#define VF_CAT(a, b) VF_CAT2(a, b)
static const VarFn COMP[] = {VF_COMP_CONFIGS(VF_COMP_FN)};
#if VF_KEYBITS == 8
static const VarFn BUCK[] = {VF_BUCK_CONFIGS_8(VF_BUCK_FN)};
static const VarFn *const EFT = nullptr;
static const int NEF = 0;
#else
static const VarFn BUCK[] = {VF_BUCK_CONFIGS(VF_BUCK_FN)};
static const VarFn EFA[] = {VF_EF_CONFIGS(VF_EF_FN)};
static const VarFn *const EFT = EFA;
static const int NEF = VF_EF_NCFG;
#endif
extern const VariantTables VF_CAT(VAR_TABLES_, VF_KEYID) = {COMP, int(sizeof(COMP) / sizeof(VarFn)), BUCK, int(sizeof(BUCK) / sizeof(VarFn)), EFT, NEF};
}
