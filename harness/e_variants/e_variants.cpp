// e_variants: dispatch; C08 (Compressed), C09 (Bucketing), C10 (Elias-Fano).
#include "../common/engine.hpp"
#include "../common/keygen.hpp"
#include <algorithm>
#include "../common/tape.hpp"

#ifdef _OPENMP
extern "C" int omp_get_num_procs(void) { return vf::g_fake_procs; }
#endif

namespace vf {
using VarFn = CaseResult (*)(const RunCtx &, TapeReader &, unsigned size_hint);
struct VariantTables {
    const VarFn *comp;
    int ncomp;
    const VarFn *buck;
    int nbuck;
    const VarFn *ef;
    int nef;
};
extern const VariantTables VAR_TABLES_u8, VAR_TABLES_u16, VAR_TABLES_u32, VAR_TABLES_u64;

static CaseResult run(const RunCtx &ctx, const Tape &tape, Tape &canon) {
    static const VariantTables *const T[4] = {&VAR_TABLES_u32, &VAR_TABLES_u64, &VAR_TABLES_u16, &VAR_TABLES_u8};
    TapeReader t(tape);
    unsigned size_hint = (unsigned) t.below(101);
    CaseResult r;
    if (ctx.prop == "C08") {
        static const unsigned tw[] = {3, 3, 2, 1};
        const VariantTables *vt = T[t.weighted(tw)];
        VarFn f = vt->comp[t.below(vt->ncomp)];
        if (ctx.mode == "mem" && t.chance(1, 2)) size_hint = std::min(size_hint, 12u); // C17: boundary sizes (n = 1, 2, 3) every other case
        r = f(ctx, t, size_hint);
    } else if (ctx.prop == "C09") {
        static const unsigned tw[] = {3, 3, 2, 1};
        const VariantTables *vt = T[t.weighted(tw)];
        VarFn f = vt->buck[t.below(vt->nbuck)];
        if (ctx.mode == "mem" && t.chance(1, 2)) size_hint = std::min(size_hint, 12u); // C17: boundary sizes (n = 1, 2, 3) every other case
        r = f(ctx, t, size_hint);
    } else {
        static const unsigned tw[] = {3, 3, 2};
        const VariantTables *vt = T[t.weighted(tw)];
        VarFn f = vt->ef[t.below(vt->nef)];
        if (ctx.mode == "mem" && t.chance(1, 2)) size_hint = std::min(size_hint, 12u); // C17: boundary sizes (n = 1, 2, 3) every other case
        r = f(ctx, t, size_hint);
    }
    canon = t.canon();
    return r;
}

static const char *rule(const std::string &prop) {
    if (prop == "C08")
        return "cases: generated sorted arrays of unsigned keys (8..64 bit; recipe blocks, duplicates, chunk seams, 1..20 threads) x 12 "
               "(Epsilon,EpsilonRecursive in {0,1,4,T,T+1,256},Floating) CompressedPGMIndex configurations; all derived queries (keys, +-1, gap mid-points, "
               "boundaries, far values; whole universe for 8-bit). oracle: lo<=hi<=n, width<=2eps+2, lower_bound in range == global, present key strictly "
               "inside. non-trivial: >=3 segments and >=1 absent query; distinct by canonical tape hash";
    if (prop == "C09")
        return "cases: as C08 over 8..12 (Epsilon,TopLevelSize in {2,3,4,5,7,8,100,128,550,1024,4096},TopLevelBitSize in {0,8,16,32,64},Floating) "
               "BucketingPGMIndex configurations (a too narrow fixed width is a counted discard); queries additionally every bucket boundary +-1. oracle: "
               "O-range, empty ranges outside [first,last], and segment_for_key == rightmost segment with key <= q over all segments. non-trivial: >=4 "
               "segments, an absent query, a bucket without segment start and a query exactly on a bucket boundary; distinct by canonical tape hash";
    return "cases: as C08 over 16..64-bit keys x 6 (Epsilon,Floating) EliasFanoPGMIndex configurations; the recipes vary number and spread of segment keys "
           "(low-bit width histogram in the evidence). oracle: O-range. non-trivial: >=4 segments and queries below the first key, between keys (absent) and "
           "above the last key; distinct by canonical tape hash";
}

const Engine ENGINE = {"e_variants", 512, &run, &rule};
} // namespace vf
