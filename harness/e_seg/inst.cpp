// One translation unit per key type: -DVF_KEY=<type> -DVF_KEYID=<identifier>
#include "seg_cfg.hpp"
namespace vf {
#define VF_CAT2(a, b) a##b
#define VF_CAT(a, b) VF_CAT2(a, b)
extern const SegFn VF_CAT(SEG_FN_, VF_KEYID) = &run_seg<VF_KEY>;
}
