// e_seg: piecewise_linear_model.hpp — C03 (every constraint point within epsilon of its segment) and
// C04 (segments are maximal => their number is minimal; exact rational feasibility oracle, integer keys).
#pragma once
#include "../common/engine.hpp"
#include "../common/keygen.hpp"
#include "pgm/pgm_index.hpp"
#include <sstream>

// The accessor befriended (under PGM_INDEX_VERIF) by the builder classes; defined by the harness.
struct pgm::verif::Access {
    template<typename CS> static const auto &rect(const CS &cs) { return cs.rectangle; }
    template<typename CS> static auto first(const CS &cs) { return cs.first; }
};

namespace vf {

using Acc = pgm::verif::Access;

template<typename K>
struct Pt {
    K x;
    size_t y;
};

/// Exact rational arithmetic on integer keys; long double on floating keys.
template<typename K>
struct Feas {
    using W = std::conditional_t<std::is_floating_point_v<K>, long double, i128>;
    // slope bounds as fractions num/den (den > 0)
    W lo_n = 0, lo_d = 0, hi_n = 0, hi_d = 0; // den == 0 means unbounded
    std::vector<Pt<K>> pts;
    size_t eps;
    uint64_t pair_ops = 0;

    explicit Feas(size_t e) : eps(e) {}
    static W l_of(size_t y, size_t e) { return y <= e ? W(0) : W(y - e); } // band clamped at rank 0, as the builder does
    static W u_of(size_t y, size_t e) { return W(y) + W(e); }
    static bool less(W an, W ad, W bn, W bd) { return an * bd < bn * ad; } // a/b < c/d, ad, bd > 0

    void clear() {
        pts.clear();
        lo_d = hi_d = 0;
    }

    /// Would S u {p} still admit a line within eps (lower band clamped at 0) of all points?  O(|S|).
    bool try_add(const Pt<K> &p, bool commit) {
        W nlo_n = lo_n, nlo_d = lo_d, nhi_n = hi_n, nhi_d = hi_d;
        const W lp = l_of(p.y, eps), up = u_of(p.y, eps);
        for (const auto &q: pts) {
            W dx = W(p.x) - W(q.x); // > 0
            W a = lp - u_of(q.y, eps); // m >= a/dx
            W b = up - l_of(q.y, eps); // m <= b/dx
            if (nlo_d == 0 || less(nlo_n, nlo_d, a, dx)) nlo_n = a, nlo_d = dx;
            if (nhi_d == 0 || less(b, dx, nhi_n, nhi_d)) nhi_n = b, nhi_d = dx;
        }
        pair_ops += pts.size();
        bool feasible = nlo_d == 0 || nhi_d == 0 || !less(nhi_n, nhi_d, nlo_n, nlo_d);
        if (feasible && commit) {
            lo_n = nlo_n, lo_d = nlo_d, hi_n = nhi_n, hi_d = nhi_d;
            pts.push_back(p);
        }
        return feasible;
    }
};

/// Oracle-driven greedy: indices (into pts) at which a new segment must start. Independent of add_point().
template<typename K>
std::vector<size_t> oracle_greedy(const std::vector<Pt<K>> &pts, size_t eps, uint64_t &ops, size_t max_seg_points) {
    std::vector<size_t> starts;
    Feas<K> f(eps);
    for (size_t i = 0; i < pts.size(); ++i) {
        if (f.pts.empty()) {
            starts.push_back(i);
            f.try_add(pts[i], true);
            continue;
        }
        if (f.pts.size() >= max_seg_points) { // budget: segment too long for the O(k^2) oracle
            starts.clear();
            ops = f.pair_ops;
            return starts;
        }
        if (!f.try_add(pts[i], true)) {
            ops += f.pair_ops;
            f.pair_ops = 0;
            f.clear();
            starts.push_back(i);
            f.try_add(pts[i], true);
        }
    }
    ops += f.pair_ops;
    return starts;
}

/// The same pairwise criterion as Feas, evaluated in O(log k) per point: the maximum of (l_i - u_j)/(x_i - x_j) over the earlier points j
/// is attained on the LOWER convex hull of the points (x_j, u_j), the minimum of (u_i - l_j)/(x_i - x_j) on the UPPER convex hull of the
/// points (x_j, l_j); along a convex chain the slope to a point on its right is bitonic, so the optimum is found by binary search.
/// Exact 128-bit arithmetic (integer keys only).  The O(k^2) form above stays the reference: whenever a session is small enough for
/// it, both are run and must agree (a disagreement is a harness bug, never a violation).
template<typename K>
struct FastFeas {
    struct P {
        i128 x, y;
    };
    std::vector<P> low_u, up_l;
    bool has = false;
    i128 lo_n = 0, lo_d = 1, hi_n = 0, hi_d = 1;
    bool lo_set = false, hi_set = false;
    size_t eps;
    explicit FastFeas(size_t e) : eps(e) {}
    static i128 cross(const P &a, const P &b, const P &c) { return (b.x - a.x) * (c.y - a.y) - (b.y - a.y) * (c.x - a.x); }
    static bool less(i128 an, i128 ad, i128 bn, i128 bd) { return an * bd < bn * ad; }
    void clear() {
        low_u.clear();
        up_l.clear();
        has = lo_set = hi_set = false;
    }
    bool try_add(const Pt<K> &p) {
        const i128 x = (i128) p.x, lp = (i128) Feas<K>::l_of(p.y, eps), up = (i128) Feas<K>::u_of(p.y, eps);
        i128 nlo_n = lo_n, nlo_d = lo_d, nhi_n = hi_n, nhi_d = hi_d;
        bool nlo_set = lo_set, nhi_set = hi_set;
        if (has) {
            { // max slope from the lower hull of the U points to (x, lp)
                size_t a = 0, b = low_u.size() - 1;
                while (a < b) {
                    size_t m = (a + b) / 2;
                    // f(m) < f(m+1)  <=>  (lp - y_m) * (x - x_{m+1}) < (lp - y_{m+1}) * (x - x_m)
                    if ((lp - low_u[m].y) * (x - low_u[m + 1].x) < (lp - low_u[m + 1].y) * (x - low_u[m].x)) a = m + 1;
                    else b = m;
                }
                i128 n = lp - low_u[a].y, d = x - low_u[a].x;
                if (!nlo_set || less(nlo_n, nlo_d, n, d)) nlo_n = n, nlo_d = d, nlo_set = true;
            }
            { // min slope from the upper hull of the L points to (x, up)
                size_t a = 0, b = up_l.size() - 1;
                while (a < b) {
                    size_t m = (a + b) / 2;
                    if ((up - up_l[m].y) * (x - up_l[m + 1].x) > (up - up_l[m + 1].y) * (x - up_l[m].x)) a = m + 1;
                    else b = m;
                }
                i128 n = up - up_l[a].y, d = x - up_l[a].x;
                if (!nhi_set || less(n, d, nhi_n, nhi_d)) nhi_n = n, nhi_d = d, nhi_set = true;
            }
            if (nlo_set && nhi_set && less(nhi_n, nhi_d, nlo_n, nlo_d)) return false;
        }
        lo_n = nlo_n, lo_d = nlo_d, hi_n = nhi_n, hi_d = nhi_d, lo_set = nlo_set, hi_set = nhi_set;
        P pu{x, up}, pl{x, lp};
        while (low_u.size() >= 2 && cross(low_u[low_u.size() - 2], low_u.back(), pu) <= 0) low_u.pop_back();
        low_u.push_back(pu);
        while (up_l.size() >= 2 && cross(up_l[up_l.size() - 2], up_l.back(), pl) >= 0) up_l.pop_back();
        up_l.push_back(pl);
        has = true;
        return true;
    }
};

template<typename K>
std::vector<size_t> oracle_greedy_fast(const std::vector<Pt<K>> &pts, size_t eps) {
    std::vector<size_t> starts;
    if constexpr (!std::is_floating_point_v<K>) {
        FastFeas<K> f(eps);
        for (size_t i = 0; i < pts.size(); ++i) {
            if (!f.has) {
                starts.push_back(i);
                f.try_add(pts[i]);
                continue;
            }
            if (!f.try_add(pts[i])) {
                f.clear();
                starts.push_back(i);
                f.try_add(pts[i]);
            }
        }
    }
    return starts;
}

/// Greedy segmentation by the exact oracle: the fast form always, cross-checked by the quadratic reference while the budget lasts.
template<typename K>
std::vector<size_t> oracle_starts(const std::vector<Pt<K>> &pts, size_t eps, uint64_t &ops, uint64_t &cross_checked) {
    std::vector<size_t> fast = oracle_greedy_fast<K>(pts, eps);
    if (ops <= 60000000ull) {
        std::vector<size_t> slow = oracle_greedy<K>(pts, eps, ops, 3000);
        if (!slow.empty() || pts.empty()) {
            ++cross_checked;
            if (slow != fast) throw HarnessBug("the O(k log k) feasibility oracle disagrees with the quadratic reference oracle");
        }
    }
    return fast;
}

template<typename K>
using CS = typename pgm::internal::OptimalPiecewiseLinearModel<K, size_t>::CanonicalSegment;

/// C03 residual check of one segment against its points. Returns "" when fine.
template<typename K>
std::string check_residuals(const CS<K> &cs, const Pt<K> *pts, size_t npts, size_t eps, long double &worst_excess) {
    const auto &r = Acc::rect(cs);
    const K origin = cs.get_first_x();
    auto[slope, icpt] = cs.get_floating_point_segment(origin);
    std::ostringstream m;
    if constexpr (std::is_floating_point_v<K>) {
        const long double tol = std::ldexp((long double) (1 + eps), -20);
        for (size_t i = 0; i < npts; ++i) {
            long double v = slope * ((long double) pts[i].x - (long double) origin) + (long double) icpt;
            long double d = std::fabs(v - (long double) pts[i].y) - (long double) eps;
            worst_excess = std::max(worst_excess, d);
            if (d > 1 + tol) {
                m << "point (" << key_str(pts[i].x) << "," << pts[i].y << ") is " << (double) (d + eps) << " away from the reported line (slope="
                  << (double) slope << ", intercept=" << (double) (long double) icpt << ", origin=" << key_str(origin) << "), allowed eps+1=" << eps + 1;
                return m.str();
            }
        }
        return "";
    } else {
        const bool one_point = r[0].x == r[2].x && r[0].y == r[2].y && r[1].x == r[3].x && r[1].y == r[3].y;
        if (one_point) {
            // reported: slope 0, intercept (y+eps + max(y-eps,0)) / 2
            if (npts != 1) {
                m << "one-point canonical segment covers " << npts << " points";
                return m.str();
            }
            i128 ic = (i128) icpt;
            i128 d = ic - (i128) pts[0].y;
            if (d < 0) d = -d;
            worst_excess = std::max(worst_excess, (long double) d - (long double) eps);
            if (slope != 0 || d > (i128) eps) {
                m << "one-point segment reports slope=" << (double) slope << " intercept=" << i128_str(ic) << " for point ("
                  << key_str(pts[0].x) << "," << pts[0].y << ")";
                return m.str();
            }
            return "";
        }
        const i128 dx = (i128) r[3].x - (i128) r[1].x, dy = (i128) r[3].y - (i128) r[1].y;
        if (dx <= 0) return "segment rectangle has non-positive dx";
        for (size_t i = 0; i < npts; ++i) {
            i128 lhs = (i128) r[1].y * dx + dy * ((i128) pts[i].x - (i128) r[1].x) - (i128) pts[i].y * dx;
            i128 a = lhs < 0 ? -lhs : lhs;
            worst_excess = std::max(worst_excess, (long double) a / (long double) dx - (long double) eps);
            if (a > (i128) eps * dx) {
                m << "point (" << key_str(pts[i].x) << "," << pts[i].y << ") is " << (double) ((long double) a / (long double) dx)
                  << " away from the segment line through (" << key_str(r[1].x) << "," << i128_str((i128) r[1].y) << ") slope " << i128_str(dy) << "/"
                  << i128_str(dx) << ", eps=" << eps;
                return m.str();
            }
        }
        // reported intercept = round(line(origin)) within 1/2; reported slope = dy/dx
        i128 N = (i128) r[1].y * dx + dy * ((i128) origin - (i128) r[1].x);
        i128 e2 = 2 * ((i128) icpt * dx - N);
        if (e2 < 0) e2 = -e2;
        if (e2 > dx) {
            m << "reported intercept " << i128_str((i128) icpt) << " is more than 1/2 away from the line value " << (double) ((long double) N / (long double) dx)
              << " at the segment origin";
            return m.str();
        }
        long double sd = slope * (long double) dx - (long double) dy;
        if (std::fabs(sd) > std::ldexp(std::fabs((long double) dy) + 1, -55)) {
            m << "reported slope " << (double) slope << " differs from dy/dx = " << i128_str(dy) << "/" << i128_str(dx);
            return m.str();
        }
        return "";
    }
}

using SegFn = CaseResult (*)(const RunCtx &, TapeReader &, unsigned size_hint);

template<typename K, size_t Eps, size_t ER>
struct LevelProbe : pgm::PGMIndex<K, Eps, ER, float> {
    using Base = pgm::PGMIndex<K, Eps, ER, float>;
    using Base::Base;
    using Base::levels_offsets;
    using Base::segments;
    static constexpr size_t kEpsilon = Eps, kEpsilonRecursive = ER;
};

/// Check one make_segmentation session against the segments emitted for it.
///  first_xs: first keys of the segments the library produced for this session, in order.
template<typename K>
void check_session_c04(CaseResult &res, const std::vector<Pt<K>> &pts, const std::vector<K> &first_xs, size_t eps, bool last_may_be_short,
                       uint64_t &ops, uint64_t &cross_checked, const char *what) {
    if (!res.ok) return;
    // O(1) facts: consecutive segment starts are more than 2*eps ranks apart
    {
        size_t pi = 0;
        std::vector<size_t> start_rank;
        for (K fx: first_xs) {
            while (pi < pts.size() && pts[pi].x != fx) ++pi;
            if (pi == pts.size()) {
                res.fail(std::string(what) + ": segment first key " + key_str(fx) + " is not one of the constraint points (or segments are out of order)");
                return;
            }
            start_rank.push_back(pts[pi].y);
        }
        for (size_t j = 1; j < start_rank.size(); ++j)
            if (start_rank[j] - start_rank[j - 1] <= 2 * eps) {
                res.fail(std::string(what) + ": consecutive segment starts at ranks " + std::to_string(start_rank[j - 1]) + " and " +
                         std::to_string(start_rank[j]) + " are not more than 2*eps=" + std::to_string(2 * eps) + " apart");
                return;
            }
    }
    std::vector<size_t> starts = oracle_starts<K>(pts, eps, ops, cross_checked);
    // the library's segmentation must coincide with the oracle-driven greedy one (=> feasible, maximal, minimal)
    size_t j = 0;
    for (; j < starts.size() && j < first_xs.size(); ++j) {
        if (pts[starts[j]].x != first_xs[j]) {
            std::ostringstream m;
            m << what << ": segment #" << j << " starts at key " << key_str(first_xs[j]) << " but the exact feasibility oracle says the longest feasible "
              << "prefix ends so that the next segment starts at key " << key_str(pts[starts[j]].x) << " (rank " << pts[starts[j]].y << "); eps=" << eps
              << (first_xs[j] < pts[starts[j]].x ? " => previous segment is not maximal (cut early)" : " => previous segment is infeasible (too long)");
            res.fail(m.str());
            return;
        }
    }
    if (starts.size() != first_xs.size()) {
        res.fail(std::string(what) + ": library emitted " + std::to_string(first_xs.size()) + " segments, oracle greedy needs " + std::to_string(starts.size()) +
                 " (eps=" + std::to_string(eps) + ")");
        return;
    }
    (void) last_may_be_short;
}

/// "beyond 2^32" class (C03, thorough tier only: one case costs about a minute): more than 2^32 points fed to ONE sequential builder
/// through the functor interface of make_segmentation (no array of that size exists in memory; keys are base + i*stride).  The
/// recording hook stays off; coverage and residuals are checked on the segment boundaries and on sampled points of every segment.
// (beyond32_mode() lives in common/engine.hpp: the dispatcher needs it too)

template<typename K>
CaseResult run_beyond32(const RunCtx &ctx, TapeReader &t) {
    CaseResult res;
    static const size_t epss[] = {0, 1, 4, 64, 1024};
    const size_t eps = t.pick(epss);
    const uint64_t n = (uint64_t(1) << 32) + 1 + t.below(5000);
    const uint64_t base = t.bits(40);
    const uint64_t stride = 1 + t.below(3);
    const uint64_t sample_seed = t.bits(64);
    if (ctx.want_desc) {
        std::ostringstream d;
        d << "layer=make_segmentation(functor) eps=" << eps << " key_type=" << type_name<K>() << " n=" << n << " keys = " << base << " + i*" << stride << " (beyond 2^32 points in one builder)";
        res.desc = d.str();
        res.xdata.emplace_back("xbeyond32", "1");
    }
    if (!ctx.execute) return res;
    vf_set_threads(1);
    std::vector<CS<K>> segs;
    size_t count = 0;
    try {
        auto in = [&](size_t i) { return K(base + (uint64_t) i * stride); };
        auto out = [&](const CS<K> &cs) { segs.push_back(cs); };
        count = pgm::internal::make_segmentation((size_t) n, eps, in, out);
    } catch (const std::exception &e) {
        res.fail(std::string("make_segmentation threw on in-domain input: ") + e.what());
        return res;
    }
    res.label("layer_beyond_2^32_points");
    res.nontrivial = true;
    res.sum("points", n);
    if (count != segs.size() || segs.empty()) {
        res.fail("returned segment count " + std::to_string(count) + " != emitted " + std::to_string(segs.size()));
        return res;
    }
    // segment j covers the fed indices [start_j, start_{j+1})
    std::vector<uint64_t> start;
    // the builder is also fed the closing point (last key + 1, n): when the line through the keys cannot absorb it (e.g. eps = 0 with
    // stride 2), it opens a final segment of its own, which covers none of the n key points
    const uint64_t closing_x = base + (n - 1) * stride + 1;
    if (segs.size() >= 2 && (uint64_t) segs.back().get_first_x() == closing_x) {
        segs.pop_back();
        res.label("closing_point_in_a_segment_of_its_own");
    }
    for (size_t j = 0; j < segs.size(); ++j) {
        uint64_t fx = (uint64_t) segs[j].get_first_x();
        if (fx < base || (fx - base) % stride || (fx - base) / stride >= n) {
            res.fail("segment #" + std::to_string(j) + " starts at key " + std::to_string(fx) + ", which is not one of the points fed");
            return res;
        }
        uint64_t idx = (fx - base) / stride;
        if (j == 0 && idx != 0) {
            res.fail("the first segment starts at key " + std::to_string(fx) + " (point #" + std::to_string(idx) + "): the " + std::to_string(idx) +
                     " points before it are covered by no segment");
            return res;
        }
        if (j && idx <= start.back()) {
            res.fail("segments are not in increasing first-key order at #" + std::to_string(j));
            return res;
        }
        start.push_back(idx);
    }
    SplitMix pr(sample_seed);
    long double worst = -1e30L;
    for (size_t j = 0; j < segs.size() && res.ok; ++j) {
        uint64_t a = start[j], b = j + 1 < segs.size() ? start[j + 1] : n; // [a, b)
        std::vector<Pt<K>> pts;
        auto add = [&](uint64_t i) { pts.push_back({K(base + i * stride), (size_t) i}); };
        add(a);
        if (b - a > 1) add(b - 1);
        for (int s = 0; s < 3 && a + 1 + s < b; ++s) add(a + 1 + s);
        size_t samples = segs.size() > 1000 ? 4 : 2000;
        for (size_t s = 0; s < samples && b - a > 2; ++s) add(a + pr.below(b - a));
        for (uint64_t p2 = uint64_t(1) << 31; p2 < b; p2 <<= 1) // around the powers of two of the point counter
            for (int dlt = -2; dlt <= 2; ++dlt)
                if (p2 + dlt >= a && p2 + dlt < b) add(p2 + dlt);
        if (pts.size() == 1 || true) {
            // check_residuals handles the one-point special form only when exactly one point is passed
            std::string err = (b - a == 1) ? check_residuals<K>(segs[j], pts.data(), 1, eps, worst) : check_residuals<K>(segs[j], pts.data(), pts.size(), eps, worst);
            if (!err.empty()) res.fail("segment #" + std::to_string(j) + " (points " + std::to_string(a) + ".." + std::to_string(b - 1) + "): " + err);
        }
    }
    res.sum("segments", segs.size());
    return res;
}

template<typename K>
CaseResult run_seg(const RunCtx &ctx, TapeReader &t, unsigned size_hint) {
    using OPLM = pgm::internal::OptimalPiecewiseLinearModel<K, size_t>;
    CaseResult res;
    const bool c03 = ctx.prop == "C03", c04 = ctx.prop == "C04";
    constexpr bool is_fp = std::is_floating_point_v<K>;
    if constexpr (sizeof(K) == 8 && std::is_unsigned_v<K>)
        if (beyond32_mode(ctx)) return run_beyond32<K>(ctx, t);

    // epsilon: 0..1024 biased to 0..4
    static const unsigned ew[] = {5, 3, 2};
    size_t eps;
    switch (t.weighted(ew)) {
        case 0: eps = t.below(5); break;
        case 1: eps = 5 + t.below(60); break;
        default: {
            static const size_t big[] = {64, 100, 128, 255, 256, 512, 1000, 1024};
            eps = t.pick(big);
            break;
        }
    }
    if (size_hint >= 85 && t.chance(1, 3)) eps = t.chance(1, 2) ? 1024 : 512; // hull sizes grow with epsilon: large arrays get the largest bounds more often
    // layer: 0 = builder API with generated (x, y) points; 1 = make_segmentation(_par) over a key array;
    //        2 = PGMIndex build (upper levels with EpsilonRecursive), C04 only, integer keys
    size_t layer = c04 && !is_fp ? t.below(3) : t.below(2);

    KeyMeta meta;
    GenOpts o;
    o.eps = std::max<size_t>(eps, 1);
    o.size_hint = size_hint;
    if (layer == 0) o.size_hint = std::min(size_hint, 70u), o.allow_threads = false, o.max_n = 6000;
    o.xkeys = ctx.x("xkeys");
    o.xthreads = ctx.x("xthreads");
    o.xprocs = ctx.x("xprocs");
    o.smooth_curves = layer == 1;
    o.hull_stress = layer == 1;
    o.hull_stress_often = ctx.mode == "mem"; // C17 runs few cases: the hull vectors must outgrow their initial room in some of them
    o.allow_giant = layer == 1 && sizeof(K) <= 4; // runs of millions of equal keys: two-point segments spanning up to 2^24 - 4096 ranks
    if (o.allow_giant) o.max_n = std::max<size_t>(o.max_n, size_t(1) << 25);
    std::vector<K> keys = gen_keys<K>(t, o, meta);
    const size_t n = keys.size();
    if constexpr (std::is_same_v<K, double>) {
        // C03 only: extreme binary scales, down to subnormal keys and up to 2^1010.  The builder computes in long double, whose exponent
        // range holds the slopes (up to 2^1074 ranks per unit of key); PGMIndex's float / double slopes do not, which is why the index
        // level properties exclude such densities.  The rescaling is exact (|m| < 2^50 lattice coordinates times a power of two).
        const bool rescale = c03 && t.chance(1, 8);
        static const int targets[] = {-1074, -1070, -1030, -1022, -900, -300, 300, 900, 960};
        const int E = targets[t.below(9)];
        if (rescale && !o.xkeys) {
            for (auto &k: keys) k = std::ldexp(k, E - meta.fp_exp2);
            for (size_t i = 1; i < n; ++i)
                if (keys[i] < keys[i - 1] || !std::isfinite(keys[i])) throw HarnessBug("rescaled keys are not sorted / finite");
            meta.recipe += " RESCALED(2^" + std::to_string(E) + ")";
        }
        if (keys.front() != 0 && std::fabs(keys.front()) < 2.3e-308) meta.recipe += " [subnormal keys]";
    }

    // layer 0: y ranks for the distinct keys
    std::vector<Pt<K>> api_pts;
    if (layer == 0) {
        size_t y = t.chance(1, 3) ? (size_t) t.loguniform(38) : t.below(3);
        unsigned jump_bits = (unsigned) t.below(20);
        SplitMix pr(t.bits(64));
        unsigned jump_every = 1 + (unsigned) t.below(64);
        for (size_t i = 0; i < n; ++i) {
            if (i && keys[i] == keys[i - 1]) continue;
            if (!api_pts.empty()) {
                size_t inc = 1;
                if (pr.below(jump_every) == 0) inc = 1 + (size_t) (pr.next() & ((uint64_t(1) << jump_bits) - 1));
                y += inc;
            }
            api_pts.push_back({keys[i], y});
        }
        if (const std::string *xy = ctx.x("xranks")) { // explicit ranks from a replay file
            std::vector<uint64_t> ys = keys_from_text<uint64_t>(*xy);
            if (ys.size() != api_pts.size()) throw HarnessBug("xranks does not match xkeys");
            for (size_t i = 0; i < ys.size(); ++i) api_pts[i].y = ys[i];
        }
    }

    size_t cfgsel = layer == 2 ? t.below(5) : 0;
    const bool nested = layer == 1 && t.chance(1, 8); // segmentation called from inside a caller's parallel region

    auto describe = [&]() {
        std::ostringstream d;
        d << "layer=" << (layer == 0 ? "builder-API" : layer == 1 ? "make_segmentation_par" : "PGMIndex-levels") << " eps=" << eps;
        if (layer == 2) d << " cfg=" << cfgsel;
        d << " " << describe_keys(keys, meta);
        if (layer == 0) {
            d << "points(" << api_pts.size() << ")=";
            for (size_t i = 0; i < api_pts.size() && i < 40; ++i) d << " (" << key_str(api_pts[i].x) << "," << api_pts[i].y << ")";
            if (api_pts.size() > 40) d << " ...";
            d << "\n";
        }
        return d.str();
    };
    if (ctx.want_desc) {
        res.desc = describe();
        std::string xk = keys_to_text(keys);
        if (!xk.empty()) {
            res.xdata.emplace_back("xkeys", xk);
            res.xdata.emplace_back("xthreads", std::to_string(meta.threads));
            res.xdata.emplace_back("xprocs", std::to_string(meta.procs));
            if (layer == 0) {
                std::string ys;
                for (auto &p: api_pts) ys += (ys.empty() ? "" : " ") + std::to_string(p.y);
                res.xdata.emplace_back("xranks", ys);
            }
        }
    }
    if (!ctx.execute) return res;

    res.label(layer == 0 ? "layer_builder_api" : layer == 1 ? "layer_make_segmentation" : "layer_pgm_levels");
    res.label(meta.size_class);
    if (meta.recipe.find("RESCALED") != std::string::npos) res.label("fp_keys_rescaled_to_an_extreme_binade");
    if (meta.recipe.find("[subnormal keys]") != std::string::npos) res.label("fp_subnormal_keys");
    if (eps == 0) res.label("eps0");
    if (eps <= 4) res.label("eps_le4");
    if (meta.has_dup) res.label("dups");
    if (nested) res.label("called_inside_parallel_region");
    if (meta.excluded_known) res.label("excluded_known_shape");

    uint64_t ops = 0, cross_checked = 0, npoints = 0, nsegs = 0;
    long double worst_excess = -1e9L;
    size_t max_seg_pts = 0;

    // ---------------------------------------------------------------- layer 0: builder API
    if (layer == 0) {
        std::vector<CS<K>> segs;
        std::vector<size_t> seg_start; // index into api_pts
        try {
            OPLM opt(eps);
            for (size_t i = 0; i < api_pts.size(); ++i) {
                if (i == 0) seg_start.push_back(0);
                if (!opt.add_point(api_pts[i].x, api_pts[i].y)) {
                    segs.push_back(opt.get_segment());
                    seg_start.push_back(i);
                    opt.add_point(api_pts[i].x, api_pts[i].y);
                }
            }
            segs.push_back(opt.get_segment());
        } catch (const std::exception &e) {
            res.fail(std::string("builder threw on valid points: ") + e.what());
            return res;
        }
        npoints = api_pts.size();
        nsegs = segs.size();
        std::vector<K> first_xs;
        for (size_t j = 0; j < segs.size(); ++j) {
            first_xs.push_back(segs[j].get_first_x());
            if (j && !(first_xs[j - 1] < first_xs[j])) res.fail("segments are not emitted in increasing first-key order");
            if (segs[j].get_first_x() != api_pts[seg_start[j]].x) res.fail("get_first_x() is not the first point fed to the segment");
            size_t e = j + 1 < segs.size() ? seg_start[j + 1] : api_pts.size();
            max_seg_pts = std::max(max_seg_pts, e - seg_start[j]);
            if (c03 && res.ok) {
                std::string m = check_residuals<K>(segs[j], &api_pts[seg_start[j]], e - seg_start[j], eps, worst_excess);
                if (!m.empty()) res.fail("segment #" + std::to_string(j) + ": " + m);
            }
        }
        if constexpr (!is_fp)
            if (c04 && res.ok) check_session_c04<K>(res, api_pts, first_xs, eps, false, ops, cross_checked, "builder API");
    }

    // ---------------------------------------------------------------- layer 1: make_segmentation_par over keys
    if (layer == 1) {
        vf_set_threads(meta.threads);
        std::vector<pgm::verif::SegSession<K>> sessions;
        std::vector<CS<K>> segs;
        pgm::verif::SegLog<K>::sink = &sessions;
        size_t count = 0;
        try {
            auto in = [&](size_t i) { return keys[i]; };
            auto out = [&](const CS<K> &cs) { segs.push_back(cs); };
            run_maybe_nested(nested, [&] { count = pgm::internal::make_segmentation_par(n, eps, in, out); });
        } catch (const std::exception &e) {
            pgm::verif::SegLog<K>::sink = nullptr;
            res.fail(std::string("make_segmentation_par threw on in-domain input: ") + e.what());
            return res;
        }
        pgm::verif::SegLog<K>::sink = nullptr;
        std::sort(sessions.begin(), sessions.end(), [](auto &a, auto &b) { return a.start < b.start; });
        if (count != segs.size()) res.fail("returned segment count " + std::to_string(count) + " != emitted " + std::to_string(segs.size()));
        nsegs = segs.size();
        if (sessions.size() > 1) res.label("chunked");

        // all points, in order
        std::vector<Pt<K>> all;
        std::vector<size_t> sess_begin;
        for (auto &s: sessions) {
            sess_begin.push_back(all.size());
            for (auto &p: s.points) all.push_back({p.first, p.second});
        }
        sess_begin.push_back(all.size());
        npoints = all.size();
        for (size_t i = 1; i < all.size() && res.ok; ++i)
            if (!(all[i - 1].x < all[i].x)) res.fail("constraint points are not strictly increasing by key at point #" + std::to_string(i));
        // (iv) every distinct key at its first-occurrence rank is among the points
        {
            size_t pi = 0;
            for (size_t i = 0; i < n && res.ok; ++i) {
                if (i && keys[i] == keys[i - 1]) continue;
                while (pi < all.size() && all[pi].x < keys[i]) ++pi;
                if (pi == all.size() || all[pi].x != keys[i] || all[pi].y != i)
                    res.fail("key " + key_str(keys[i]) + " at first-occurrence rank " + std::to_string(i) + " is not among the constraint points");
            }
        }
        // (i)/(ii) segments in increasing first-key order, each first key is a point; partition points by segment
        std::vector<size_t> seg_pt(segs.size() + 1, all.size());
        {
            size_t pi = 0;
            for (size_t j = 0; j < segs.size() && res.ok; ++j) {
                K fx = segs[j].get_first_x();
                if (j && !(segs[j - 1].get_first_x() < fx)) {
                    res.fail("segments are not emitted in increasing first-key order at segment #" + std::to_string(j));
                    break;
                }
                while (pi < all.size() && all[pi].x < fx) ++pi;
                if (pi == all.size() || all[pi].x != fx) {
                    res.fail("first key of segment #" + std::to_string(j) + " (" + key_str(fx) + ") is not a constraint point");
                    break;
                }
                seg_pt[j] = pi;
            }
            if (res.ok && (segs.empty() || seg_pt[0] != 0)) res.fail("first constraint point is not covered by any segment");
        }
        if (c03 && res.ok)
            for (size_t j = 0; j < segs.size() && res.ok; ++j) {
                size_t b = seg_pt[j], e = seg_pt[j + 1];
                max_seg_pts = std::max(max_seg_pts, e - b);
                std::string m = check_residuals<K>(segs[j], &all[b], e - b, eps, worst_excess);
                if (!m.empty()) res.fail("segment #" + std::to_string(j) + ": " + m);
            }
        if constexpr (!is_fp)
            if (c04 && res.ok) {
                size_t c = sessions.size();
                size_t sj = 0;
                for (size_t s = 0; s < sessions.size() && res.ok; ++s) {
                    std::vector<Pt<K>> sp(all.begin() + sess_begin[s], all.begin() + sess_begin[s + 1]);
                    std::vector<K> fx;
                    K lim_set = K();
                    bool has_lim = s + 1 < sessions.size();
                    if (has_lim) lim_set = all[sess_begin[s + 1]].x;
                    while (sj < segs.size() && (!has_lim || segs[sj].get_first_x() < lim_set)) fx.push_back(segs[sj++].get_first_x());
                    for (size_t j = 0; j < fx.size(); ++j) max_seg_pts = std::max(max_seg_pts, sp.size() / std::max<size_t>(1, fx.size()));
                    check_session_c04<K>(res, sp, fx, eps, true, ops, cross_checked, ("chunk " + std::to_string(s)).c_str());
                }
                size_t bound = n / (2 * eps + 1) + c + 1;
                if (res.ok && segs.size() > bound)
                    res.fail("segment count " + std::to_string(segs.size()) + " exceeds floor(n/(2eps+1))+c+1 = " + std::to_string(bound));
                if (res.ok && c > chunk_count(n, meta.threads)) res.fail("more construction chunks than min(procs,threads,20)");
            }
    }

    // ---------------------------------------------------------------- layer 2: PGMIndex levels (C04, integer keys)
    if constexpr (!is_fp)
        if (layer == 2) {
            vf_set_threads(meta.threads);
            std::vector<pgm::verif::SegSession<K>> sessions;
            auto run_cfg = [&](auto probe_tag) {
                using Probe = typename decltype(probe_tag)::type;
                constexpr size_t E = Probe::Base::epsilon_value;
                pgm::verif::SegLog<K>::sink = &sessions;
                Probe idx;
                try {
                    idx = Probe(keys.begin(), keys.end());
                } catch (const std::exception &e) {
                    pgm::verif::SegLog<K>::sink = nullptr;
                    res.fail(std::string("construction threw on in-domain input: ") + e.what());
                    return;
                }
                pgm::verif::SegLog<K>::sink = nullptr;
                // group sessions into levels (sessions of one level share n and are contiguous)
                std::vector<std::vector<size_t>> levels;
                for (size_t s = 0; s < sessions.size(); ++s) {
                    if (levels.empty() || sessions[levels.back()[0]].n != sessions[s].n) levels.emplace_back();
                    levels.back().push_back(s);
                }
                if (levels.size() != idx.height()) {
                    res.fail("recorded " + std::to_string(levels.size()) + " segmentation levels, index height is " + std::to_string(idx.height()));
                    return;
                }
                if (idx.height() >= 3) res.label("ge3_levels");
                for (size_t l = 0; l < levels.size() && res.ok; ++l) {
                    auto &ls = levels[l];
                    std::sort(ls.begin(), ls.end(), [&](size_t a, size_t b) { return sessions[a].start < sessions[b].start; });
                    // the property fixes the bound of every level: Epsilon at the bottom, EpsilonRecursive above it - not whatever
                    // value the build happened to pass to the segmentation
                    const size_t le = l == 0 ? Probe::kEpsilon : Probe::kEpsilonRecursive;
                    if (sessions[ls[0]].epsilon != le) {
                        res.fail("level " + std::to_string(l) + " was segmented with epsilon " + std::to_string(sessions[ls[0]].epsilon) + ", the index promises " +
                                 (l == 0 ? "Epsilon = " : "EpsilonRecursive = ") + std::to_string(le) + " (segments cannot be maximal for that bound)");
                        break;
                    }
                    size_t fed = sessions[ls[0]].n;
                    // segment keys of this level as stored (drop the sentinel and the optional extra (last+1, 0, n) segment)
                    size_t b = idx.levels_offsets[l], e = idx.levels_offsets[l + 1];
                    std::vector<K> stored;
                    for (size_t i = b; i < e; ++i) stored.push_back(idx.segments[i].key);
                    if (stored.empty() || stored.back() != std::numeric_limits<K>::max()) {
                        res.fail("level " + std::to_string(l) + " is not terminated by a sentinel");
                        return;
                    }
                    stored.pop_back();
                    std::vector<Pt<K>> all;
                    for (size_t s: ls)
                        for (auto &p: sessions[s].points) all.push_back({p.first, p.second});
                    npoints += all.size();
                    // the closing point (last+1, n) may have opened a segment with the reserved key: build() turns it into the sentinel
                    // the extra segment is not produced by the segmentation: recognise it by key == last point's key with slope 0
                    // => compare the stored keys with the oracle greedy over all points of the level, chunk by chunk
                    size_t sj = 0;
                    size_t pbeg = 0;
                    std::vector<K> produced; // what the oracle expects over all chunks
                    for (size_t ci = 0; ci < ls.size() && res.ok; ++ci) {
                        size_t s = ls[ci];
                        std::vector<Pt<K>> sp;
                        for (auto &p: sessions[s].points) sp.push_back({p.first, p.second});
                        std::vector<size_t> starts = oracle_starts<K>(sp, le, ops, cross_checked);
                        for (size_t st: starts) produced.push_back(sp[st].x);
                        pbeg += sp.size();
                    }
                    (void) sj;
                    (void) pbeg;
                    if (!res.ok) break;
                    if (produced.empty()) continue; // too large for the oracle, counted
                    // a produced segment whose key is the reserved value is represented by the sentinel
                    if (produced.back() == std::numeric_limits<K>::max()) produced.pop_back();
                    // the stored level may carry one extra segment (key = last fed key + 1, slope 0)
                    bool equal_plain = stored == produced;
                    bool equal_extra = stored.size() == produced.size() + 1 && std::equal(produced.begin(), produced.end(), stored.begin()) &&
                                       idx.segments[b + stored.size() - 1].slope == 0;
                    if (!equal_plain && !equal_extra) {
                        std::ostringstream m;
                        m << "level " << l << " (epsilon " << le << ", " << fed << " keys fed, " << ls.size() << " chunk(s)): stored segment keys differ from the "
                          << "oracle greedy segmentation: stored " << stored.size() << " segments, oracle " << produced.size();
                        for (size_t i = 0; i < std::min(stored.size(), produced.size()); ++i)
                            if (stored[i] != produced[i]) {
                                m << "; first difference at segment #" << i << ": stored key " << key_str(stored[i]) << ", oracle " << key_str(produced[i]);
                                break;
                            }
                        res.fail(m.str());
                        break;
                    }
                    nsegs += stored.size();
                    size_t c = ls.size();
                    size_t bound = fed / (2 * le + 1) + c + 1;
                    if (produced.size() > bound) res.fail("level " + std::to_string(l) + ": " + std::to_string(produced.size()) + " segments exceed floor(n/(2eps+1))+c+1 = " + std::to_string(bound));
                    if (l == 0 && idx.segments_count() > bound)
                        res.fail("segments_count() = " + std::to_string(idx.segments_count()) + " exceeds floor(n/(2eps+1))+c+1 = " + std::to_string(bound));
                    if (l > 0) res.label("upper_level_checked");
                    (void) E;
                }
            };
            switch (cfgsel) {
                case 0: run_cfg(std::common_type<LevelProbe<K, 1, 1>>{}); break;
                case 1: run_cfg(std::common_type<LevelProbe<K, 2, 2>>{}); break;
                case 2: run_cfg(std::common_type<LevelProbe<K, 4, 1>>{}); break;
                case 3: run_cfg(std::common_type<LevelProbe<K, 1, 4>>{}); break;
                default: run_cfg(std::common_type<LevelProbe<K, 8, 64>>{}); break;
            }
        }

    res.sum("constraint_points", npoints);
    res.sum("segments", nsegs);
    res.sum("oracle_pair_ops", ops);
    res.sum("sessions_cross_checked_by_the_quadratic_reference_oracle", cross_checked);
    if (c03) res.max(is_fp ? "worst_excess_over_eps_fp_keys" : "worst_excess_over_eps_int_keys", (double) worst_excess);
    if (c03) res.nontrivial = nsegs >= 2 && max_seg_pts >= 3;
    if (c04) res.nontrivial = nsegs >= 3 && npoints >= 2 * eps + 2;
    if (!res.ok && ctx.want_desc) res.desc = describe();
    return res;
}

} // namespace vf
