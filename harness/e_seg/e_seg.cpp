// e_seg: dispatch by key type; C03, C04.
#include "../common/engine.hpp"
#include "../common/keygen.hpp"
#include "../common/tape.hpp"

#ifdef _OPENMP
extern "C" int omp_get_num_procs(void) { return vf::g_fake_procs; }
#endif

namespace vf {
using SegFn = CaseResult (*)(const RunCtx &, TapeReader &, unsigned size_hint);
#define VF_DECL(ID) extern const SegFn SEG_FN_##ID;
VF_DECL(u8) VF_DECL(i8) VF_DECL(u16) VF_DECL(i16) VF_DECL(u32) VF_DECL(i32) VF_DECL(u64) VF_DECL(i64) VF_DECL(f32) VF_DECL(f64) VF_DECL(ll) VF_DECL(ull)

static CaseResult run(const RunCtx &ctx, const Tape &tape, Tape &canon) {
    // long long / unsigned long long are distinct 64-bit types on LP64 (int64_t is long): the builder's wide arithmetic must be selected
    // by width, not by type name
    // (appended after the original ten so that the key-type word of older replay files keeps its meaning)
    static const SegFn *const FNS[12] = {&SEG_FN_u32, &SEG_FN_u64, &SEG_FN_i32, &SEG_FN_i64, &SEG_FN_u8,  &SEG_FN_i8,
                                         &SEG_FN_u16, &SEG_FN_i16, &SEG_FN_f32, &SEG_FN_f64, &SEG_FN_ll,  &SEG_FN_ull};
    TapeReader t(tape);
    unsigned size_hint = (unsigned) t.below(101);
    size_t kt;
    if (ctx.prop == "C04") { // exact rational oracle: integer keys only
        static const unsigned tw[] = {3, 3, 2, 3, 1, 1, 1, 1, 0, 0, 1, 1};
        kt = t.weighted(tw);
    } else {
        static const unsigned tw[] = {3, 3, 2, 2, 1, 1, 1, 1, 2, 2, 1, 1};
        kt = t.weighted(tw);
    }
    if (beyond32_mode(ctx)) kt = t.below(2) ? 11 : 1; // uint64_t / unsigned long long
    CaseResult r = (*FNS[kt])(ctx, t, size_hint);
    canon = t.canon();
    return r;
}

static const char *rule(const std::string &prop) {
    if (prop == "C03")
        return "cases: epsilon 0..1024 (biased to 0..4) x 12 key types (the ten fixed-width / floating types plus long long and unsigned long long) x {builder API fed generated strictly increasing (x,y) points with rank jumps | "
               "make_segmentation_par over generated sorted key arrays, 1..20 threads, points captured by the PGM_INDEX_VERIF hook}. oracle: segments in "
               "increasing first-key order, every point in exactly one segment, residual <= eps (+1/2 intercept rounding) in exact 128-bit arithmetic "
               "for integer keys / <= eps+1+2^-20(1+eps) in long double for floating keys, first-occurrence points present. non-trivial: >=2 segments "
               "and a segment with >=3 points; distinct by canonical tape hash";
    return "cases: as C03 restricted to integer keys, plus PGMIndex builds whose upper levels (EpsilonRecursive) are recorded. oracle: the library's "
           "segmentation of every chunk must coincide with a greedy segmentation driven by an exact rational feasibility test "
           "(max_{j<i}(l_i-u_j)/(x_i-x_j) <= min_{j<i}(u_i-l_j)/(x_i-x_j), 128-bit cross-multiplication; evaluated in O(log k) per point over the two convex "
           "hulls, and cross-checked by the literal O(k^2) evaluation while a per-case budget lasts) => feasible, maximal, minimal, for segments of any length; "
           "starts > 2eps ranks apart; count <= floor(n/(2eps+1))+c+1. non-trivial: >=3 segments, >=2eps+2 points; distinct by tape hash";
}

const Engine ENGINE = {"e_seg", 512, &run, &rule};
} // namespace vf
