#include "mapped_cfg.hpp"
namespace vf {
#define VF_CAT2(a, b) a##b
#define VF_CAT(a, b) VF_CAT2(a, b)
extern const MapFn VF_CAT(MAPPED_TABLE_, VF_KEYID)[VF_MAPPED_NCFG] = {VF_MAPPED_CONFIGS(VF_MAPPED_FN)};
}
