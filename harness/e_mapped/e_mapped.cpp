// e_mapped: dispatch; C11, C12.
#include "../common/engine.hpp"
#include "../common/keygen.hpp"
#include <algorithm>
#include "../common/tape.hpp"

#ifdef _OPENMP
extern "C" int omp_get_num_procs(void) { return vf::g_fake_procs; }
#endif

// Guard pages behind file mappings.  AddressSanitizer does not track mmap'ed files, so a read a few bytes past the end of the mapped
// file (C17: "... or the mapped file") would be silent.  The executable's own mmap/munmap take precedence over libc's: a file-backed
// mapping requested without an address is placed at the start of a PROT_NONE reservation one page longer than the (page-rounded)
// length, so the page after the file is inaccessible and an over-read faults when the file ends exactly on a page boundary (the
// generator steers a share of the files to such sizes).  Everything else is passed through to the kernel unchanged.
#include <sys/mman.h>
#include <sys/syscall.h>
#include <unistd.h>
namespace {
struct GuardedMap {
    void *addr;
    size_t total;
};
GuardedMap g_maps[64];
inline void *raw_mmap(void *a, size_t l, int p, int f, int fd, off_t o) { return (void *) syscall(SYS_mmap, a, l, p, f, fd, o); }
} // namespace
extern "C" void *mmap(void *addr, size_t len, int prot, int flags, int fd, off_t off) noexcept {
    if (addr != nullptr || fd < 0 || len == 0 || (flags & MAP_FIXED)) return raw_mmap(addr, len, prot, flags, fd, off);
    const size_t page = 4096, rounded = (len + page - 1) / page * page, total = rounded + page;
    void *res = raw_mmap(nullptr, total, PROT_NONE, MAP_PRIVATE | MAP_ANONYMOUS, -1, 0);
    if (res == MAP_FAILED) return raw_mmap(addr, len, prot, flags, fd, off);
    void *m = raw_mmap(res, len, prot, flags | MAP_FIXED, fd, off);
    if (m == MAP_FAILED) {
        syscall(SYS_munmap, res, total);
        return MAP_FAILED;
    }
    for (auto &g: g_maps)
        if (g.addr == nullptr) {
            g = {res, total};
            break;
        }
    return res;
}
extern "C" int munmap(void *addr, size_t len) noexcept {
    for (auto &g: g_maps)
        if (g.addr == addr && addr != nullptr) {
            size_t total = g.total;
            g.addr = nullptr;
            return (int) syscall(SYS_munmap, addr, total); // the reservation goes with the mapping
        }
    return (int) syscall(SYS_munmap, addr, len);
}

namespace vf {
using MapFn = CaseResult (*)(const RunCtx &, TapeReader &, unsigned size_hint);
#define VF_DECL(ID) extern const MapFn MAPPED_TABLE_##ID[7];
VF_DECL(u16) VF_DECL(i16) VF_DECL(u32) VF_DECL(i32) VF_DECL(u64) VF_DECL(i64)

static CaseResult run(const RunCtx &ctx, const Tape &tape, Tape &canon) {
    static const MapFn *const T[6] = {MAPPED_TABLE_i32, MAPPED_TABLE_i64, MAPPED_TABLE_u32, MAPPED_TABLE_u64, MAPPED_TABLE_i16, MAPPED_TABLE_u16};
    TapeReader t(tape);
    unsigned size_hint = (unsigned) t.below(101);
    static const unsigned tw[] = {3, 3, 2, 2, 1, 1};
    size_t kt = t.weighted(tw);
    size_t cfg = t.below(7);
    if (ctx.mode == "mem" && t.chance(1, 2)) size_hint = std::min(size_hint, 12u); // C17: boundary sizes (n = 1, 2, 3) every other case
    CaseResult r = T[kt][cfg](ctx, t, size_hint);
    canon = t.canon();
    return r;
}

static const char *rule(const std::string &prop) {
    if (prop == "C11")
        return "cases: duplicate-heavy generated sorted arrays (runs of length 2, eps, eps+1, 2eps..2eps+3, 4eps, 2^k+-1, >> eps; runs ending at n) over "
               "{u16,i16,u32,i32,u64,i64} x 7 (Epsilon in {1,4,8,128}, EpsilonRecursive in {0,4,64}, Floating in {float,double}) MappedPGMIndex configurations, 3/4 built from an iterator "
               "range (vector iterators, raw pointers, std::deque iterators, reverse iterators, 1/4 each) and 1/4 from a raw key file; in half of the cases a longer stale file sits at an output path; queries = keys, +-1, gap mid-points, boundaries, far values. oracle: std::lower_bound / upper_bound / "
               "count / binary_search, begin()..end() equals the data, size(). non-trivial: a queried run longer than 2eps+2 and a query outside "
               "[front, back]; distinct by canonical tape hash";
    return "cases: data as C11 (first key zero, positive, negative) + a generated script over {create from range, create from raw file, reopen A, reopen B, "
           "reopen again}; the range comes as vector / pointer / deque / reverse iterators; in half of the cases a longer stale file sits at one or both output paths. oracle: the two written files are byte-identical, a file is byte-identical before/after every reopen, the file ends with the "
           "keys, every instance answers the whole query set like the std algorithms. non-trivial: both constructors, >=1 reopen, first key != 0; "
           "distinct by canonical tape hash";
}

const Engine ENGINE = {"e_mapped", 512, &run, &rule};
} // namespace vf
