// e_mapped: dispatch; C11, C12.
#include "../common/engine.hpp"
#include "../common/keygen.hpp"
#include <algorithm>
#include "../common/tape.hpp"

#ifdef _OPENMP
extern "C" int omp_get_num_procs(void) { return vf::g_fake_procs; }
#endif

namespace vf {
using MapFn = CaseResult (*)(const RunCtx &, TapeReader &, unsigned size_hint);
#define VF_DECL(ID) extern const MapFn MAPPED_TABLE_##ID[6];
VF_DECL(u16) VF_DECL(i16) VF_DECL(u32) VF_DECL(i32) VF_DECL(u64) VF_DECL(i64)

static CaseResult run(const RunCtx &ctx, const Tape &tape, Tape &canon) {
    static const MapFn *const T[6] = {MAPPED_TABLE_i32, MAPPED_TABLE_i64, MAPPED_TABLE_u32, MAPPED_TABLE_u64, MAPPED_TABLE_i16, MAPPED_TABLE_u16};
    TapeReader t(tape);
    unsigned size_hint = (unsigned) t.below(101);
    static const unsigned tw[] = {3, 3, 2, 2, 1, 1};
    size_t kt = t.weighted(tw);
    size_t cfg = t.below(6);
    if (ctx.mode == "mem" && t.chance(1, 2)) size_hint = std::min(size_hint, 12u); // C17: boundary sizes (n = 1, 2, 3) every other case
    CaseResult r = T[kt][cfg](ctx, t, size_hint);
    canon = t.canon();
    return r;
}

static const char *rule(const std::string &prop) {
    if (prop == "C11")
        return "cases: duplicate-heavy generated sorted arrays (runs of length 2, eps, eps+1, 2eps..2eps+3, 4eps, 2^k+-1, >> eps; runs ending at n) over "
               "{u16,i16,u32,i32,u64,i64} x 6 (Epsilon in {1,4,8,128}, EpsilonRecursive in {0,4}, Floating in {float,double}) MappedPGMIndex configurations, 3/4 built from an iterator "
               "range (vector iterators, raw pointers, std::deque iterators, reverse iterators, 1/4 each) and 1/4 from a raw key file; in half of the cases a longer stale file sits at an output path; queries = keys, +-1, gap mid-points, boundaries, far values. oracle: std::lower_bound / upper_bound / "
               "count / binary_search, begin()..end() equals the data, size(). non-trivial: a queried run longer than 2eps+2 and a query outside "
               "[front, back]; distinct by canonical tape hash";
    return "cases: data as C11 (first key zero, positive, negative) + a generated script over {create from range, create from raw file, reopen A, reopen B, "
           "reopen again}; the range comes as vector / pointer / deque / reverse iterators; in half of the cases a longer stale file sits at one or both output paths. oracle: the two written files are byte-identical, a file is byte-identical before/after every reopen, the file ends with the "
           "keys, every instance answers the whole query set like the std algorithms. non-trivial: both constructors, >=1 reopen, first key != 0; "
           "distinct by canonical tape hash";
}

const Engine ENGINE = {"e_mapped", 512, &run, &rule};
} // namespace vf
