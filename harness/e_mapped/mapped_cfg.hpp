// e_mapped: MappedPGMIndex — C11 (multiset queries equal the std algorithms), C12 (range-built, raw-file-built and
// reopened containers are equivalent; files byte-identical; reopening never alters the file).
#pragma once
#include "../common/engine.hpp"
#include "../common/keygen.hpp"
#include "pgm/pgm_index_variants.hpp"
#include <deque>
#include <fstream>
#include <memory>
#include <sstream>
#include <unistd.h>

namespace vf {

using MapFn = CaseResult (*)(const RunCtx &, TapeReader &, unsigned size_hint);

inline std::string slurp(const std::string &path) {
    std::ifstream f(path, std::ios::binary);
    std::ostringstream s;
    s << f.rdbuf();
    return s.str();
}

/// The library never closes the descriptors it maps files from; the harness closes them after each case so that
/// hundreds of thousands of cases fit in one process (not part of any property).
struct FdJanitor {
    int base;
    FdJanitor() {
        base = open("/dev/null", O_RDONLY);
        if (base >= 0) close(base);
    }
    ~FdJanitor() {
        if (base >= 0)
            for (int fd = base; fd < base + 64; ++fd) close(fd);
    }
};

template<typename K, typename Index>
bool mapped_queries(CaseResult &res, const Index &idx, const std::vector<K> &keys, const std::vector<K> &queries, const char *who,
                    uint64_t &nq, bool &long_run_hit, bool &outside_hit, size_t eps, bool mem = false) {
    const size_t n = keys.size();
    if (mem) { // C17: only AddressSanitizer judges; every operation is still executed and its result consumed
        volatile size_t sink = idx.size() + size_t(idx.end() - idx.begin());
        for (const K &q: queries) {
            ++nq;
            sink = sink + size_t(idx.lower_bound(q) - idx.begin()) + size_t(idx.upper_bound(q) - idx.begin()) + idx.count(q) + idx.contains(q);
            if (q > keys.back() || q < keys.front()) outside_hit = true;
        }
        for (auto it = idx.begin(); it != idx.end(); ++it) sink = sink + size_t(*it);
        (void) sink;
        return true;
    }
    if (idx.size() != n) {
        res.fail(std::string(who) + ": size() = " + std::to_string(idx.size()) + ", expected " + std::to_string(n));
        return false;
    }
    if (size_t(idx.end() - idx.begin()) != n || !std::equal(keys.begin(), keys.end(), idx.begin())) {
        res.fail(std::string(who) + ": begin()..end() does not expose the stored sequence");
        return false;
    }
    for (const K &q: queries) {
        ++nq;
        size_t lb = size_t(std::lower_bound(keys.begin(), keys.end(), q) - keys.begin());
        size_t ub = size_t(std::upper_bound(keys.begin(), keys.end(), q) - keys.begin());
        size_t got_lb = size_t(idx.lower_bound(q) - idx.begin());
        size_t got_ub = size_t(idx.upper_bound(q) - idx.begin());
        size_t got_cnt = idx.count(q);
        bool got_has = idx.contains(q);
        if (ub - lb > 2 * eps + 2) long_run_hit = true;
        if (q > keys.back() || q < keys.front()) outside_hit = true;
        if (got_lb != lb || got_ub != ub || got_cnt != ub - lb || got_has != (ub > lb)) {
            std::ostringstream m;
            m << who << ": query=" << key_str(q) << " lower_bound=" << got_lb << " (std " << lb << ") upper_bound=" << got_ub << " (std " << ub
              << ") count=" << got_cnt << " (std " << ub - lb << ") contains=" << got_has << " (std " << (ub > lb) << ") n=" << n;
            res.fail(m.str());
            return false;
        }
    }
    return true;
}

template<typename K, size_t Eps, size_t ER, typename F>
CaseResult run_mapped(const RunCtx &ctx, TapeReader &t, unsigned size_hint) {
    using Index = pgm::MappedPGMIndex<K, Eps, ER, F>;
    CaseResult res;
    const bool c11 = ctx.prop == "C11", c12 = ctx.prop == "C12";
    const bool mem = ctx.mode == "mem";
    KeyMeta meta;
    GenOpts o;
    o.eps = Eps;
    o.size_hint = size_hint;
    o.dup_heavy = true;
    o.max_n = size_t(1) << 20;   // only the pow2_size class goes beyond 2*10^5
    o.pow2_sizes = true;
    o.xkeys = ctx.x("xkeys");
    o.xthreads = ctx.x("xthreads");
    o.xprocs = ctx.x("xprocs");
    std::vector<K> keys = gen_keys<K>(t, o, meta);
    size_t n = keys.size();

    // C12: a generated order of operations; every script contains both constructors and at least one reopen when long enough
    // ops: 0 = create A from range, 1 = create B from raw file, 2 = reopen A's file, 3 = reopen B's file, 4 = reopen the last reopened file again
    std::vector<int> script;
    if (c12) {
        size_t len = 2 + t.below(5);
        for (size_t i = 0; i < len; ++i) script.push_back((int) t.below(5));
        if (const std::string *xs = ctx.x("xscript")) {
            script.clear();
            for (char c: *xs)
                if (c >= '0' && c <= '4') script.push_back(c - '0');
        }
    }

    const bool use_raw = !c12 && t.chance(1, 4); // C11: a quarter of the cases through the raw-file constructor
    // the iterator range handed to the range constructor: vector iterators, raw pointers, std::deque iterators (random access, NOT
    // contiguous), reverse iterators over a descending vector
    const unsigned src_kind = (unsigned) t.below(4);
    // what is at the output path before construction: nothing, or a longer stale file (at the range path, the raw path, or both)
    const unsigned stale = (unsigned) t.below(6);
    // 1 case in 4: copies of the last key are appended until the index file ends exactly on a page boundary (the harness maps files
    // with an inaccessible page behind them, see e_mapped.cpp: only then does a read past the last key fault)
    const bool page_align = t.chance(1, 4);
    std::ostringstream head;
    head << "MappedPGMIndex<" << type_name<K>() << "," << Eps << "," << ER << "," << type_name<F>() << ">";
    if (c12) {
        head << " script=";
        for (int op: script) head << op;
    }
    if (ctx.want_desc) {
        res.desc = head.str() + " " + describe_keys(keys, meta);
        std::string xk = keys_to_text(keys);
        if (!xk.empty()) {
            res.xdata.emplace_back("xkeys", xk);
            res.xdata.emplace_back("xthreads", std::to_string(meta.threads));
            res.xdata.emplace_back("xprocs", std::to_string(meta.procs));
            if (c12) {
                std::string s;
                for (int op: script) s += char('0' + op);
                res.xdata.emplace_back("xscript", s);
            }
        }
    }
    if (!ctx.execute) return res;

    FdJanitor janitor;
    vf_set_threads(meta.threads);
    if (page_align && keys.size() <= (size_t(1) << 20)) {
        const std::string fp = ctx.workdir + "/probe.pgm";
        for (int round = 0; round < 4; ++round) {
            size_t bytes;
            {
                Index probe(keys.begin(), keys.end(), fp);
                bytes = probe.file_size_in_bytes();
            }
            size_t pad = (4096 - bytes % 4096) % 4096;
            if (pad == 0) {
                res.label("index_file_ends_on_a_page_boundary");
                break;
            }
            if (pad % sizeof(K)) break;
            keys.insert(keys.end(), pad / sizeof(K), keys.back());
        }
        std::remove(fp.c_str());
        meta.has_dup = true;
        n = keys.size();
    }
    const std::string fa = ctx.workdir + "/a.pgm", fb = ctx.workdir + "/b.pgm", fraw = ctx.workdir + "/raw.bin";
    std::remove(fa.c_str());
    std::remove(fb.c_str());
    {
        std::ofstream r(fraw, std::ios::binary | std::ios::trunc);
        r.write((const char *) keys.data(), n * sizeof(K));
    }
    auto plant_stale = [&](const std::string &path, size_t extra) {
        std::ofstream r(path, std::ios::binary | std::ios::trunc);
        std::string junk(2 * n * (sizeof(K) + 24) + 8192 + extra, char(0xAB));
        r.write(junk.data(), (std::streamsize) junk.size());
    };
    if (stale == 3 || stale == 5) plant_stale(fa, 0), res.label("stale_longer_file_at_range_output");
    if (stale == 4 || stale == 5) plant_stale(fb, 4096), res.label("stale_longer_file_at_raw_output");
    static const char *const src_names[] = {"source_vector_iterators", "source_raw_pointers", "source_deque_iterators", "source_reverse_iterators"};
    auto from_range = [&](const std::string &out) -> Index * {
        switch (src_kind) {
            case 1: return new Index(keys.data(), keys.data() + n, out);
            case 2: {
                std::deque<K> dq(keys.begin(), keys.end());
                return new Index(dq.begin(), dq.end(), out);
            }
            case 3: {
                std::vector<K> desc(keys.rbegin(), keys.rend());
                return new Index(desc.rbegin(), desc.rend(), out);
            }
            default: return new Index(keys.begin(), keys.end(), out);
        }
    };

    res.label(meta.size_class);
    if (meta.chunks > 1) res.label("chunked");
    if (meta.has_dup) res.label("dups");
    if (keys.front() < 0) res.label("first_key_negative");
    else if (keys.front() == 0) res.label("first_key_zero");
    else res.label("first_key_positive");

    std::vector<K> queries = gen_queries<K>(keys, meta, Eps, false, false);
    uint64_t nq = 0;
    bool long_run = false, outside = false;

    try {
        if (c11 || (mem && !c12)) {
            // half of the cases through the raw-file constructor as well (both must honour the contract)
            std::unique_ptr<Index> idx;
            if (use_raw) idx.reset(new Index(fraw, fa)), res.label("built_from_raw_file");
            else idx.reset(from_range(fa)), res.label("built_from_range"), res.label(src_names[src_kind]);
            if (!mapped_queries<K>(res, *idx, keys, queries, use_raw ? "raw-file-built" : "range-built", nq, long_run, outside, Eps, mem)) {}
            res.nontrivial = long_run && outside;
            if (mem) res.nontrivial = n <= 3 || meta.starts_lowest || meta.top_reached || outside;
            if (long_run) res.label("nt_run_longer_than_range");
        } else {
            // C12
            std::string bytes_a, bytes_b;
            bool have_a = false, have_b = false, reopened = false;
            std::string last_reopened;
            std::vector<std::unique_ptr<Index>> alive; // instances stay alive together (they share files)
            auto ensure = [&](bool a) {
                if (a && !have_a) {
                    alive.emplace_back(from_range(fa));
                    res.label(src_names[src_kind]);
                    have_a = true;
                    bytes_a = slurp(fa);
                    mapped_queries<K>(res, *alive.back(), keys, queries, "range-built", nq, long_run, outside, Eps, mem);
                }
                if (!a && !have_b) {
                    alive.emplace_back(new Index(fraw, fb));
                    have_b = true;
                    bytes_b = slurp(fb);
                    mapped_queries<K>(res, *alive.back(), keys, queries, "raw-file-built", nq, long_run, outside, Eps, mem);
                }
            };
            for (int op: script) {
                if (!res.ok) break;
                switch (op) {
                    case 0: ensure(true); break;
                    case 1: ensure(false); break;
                    case 2:
                    case 3:
                    case 4: {
                        std::string f;
                        if (op == 4) f = last_reopened.empty() ? fa : last_reopened;
                        else f = op == 2 ? fa : fb;
                        ensure(f == fa);
                        if (!res.ok) break;
                        const std::string &before = f == fa ? bytes_a : bytes_b;
                        alive.emplace_back(new Index(f));
                        reopened = true;
                        last_reopened = f;
                        std::string after = slurp(f);
                        if (!mem && after != before) {
                            res.fail("reopening altered the file " + f + " (size " + std::to_string(before.size()) + " -> " + std::to_string(after.size()) + ")");
                            break;
                        }
                        mapped_queries<K>(res, *alive.back(), keys, queries, f == fa ? "reopened(range-built file)" : "reopened(raw-built file)", nq,
                                          long_run, outside, Eps, mem);
                        break;
                    }
                }
            }
            if (res.ok && have_a && have_b && !mem) {
                if (bytes_a != bytes_b) {
                    size_t d = 0;
                    while (d < bytes_a.size() && d < bytes_b.size() && bytes_a[d] == bytes_b[d]) ++d;
                    res.fail("files written by the range constructor and the raw-file constructor differ (sizes " + std::to_string(bytes_a.size()) + " / " +
                             std::to_string(bytes_b.size()) + ", first difference at byte " + std::to_string(d) + ")");
                }
            }
            if (res.ok && (have_a || have_b) && !mem) {
                // expected layout: header_bytes | n | first_key | levels_offsets | segments | keys
                const std::string &b = have_a ? bytes_a : bytes_b;
                if (b.size() < 2 * sizeof(size_t) + sizeof(K) + n * sizeof(K)) res.fail("file shorter than header + keys");
                else if (std::memcmp(b.data() + b.size() - n * sizeof(K), keys.data(), n * sizeof(K)) != 0) res.fail("file does not end with the stored keys");
            }
            res.nontrivial = have_a && have_b && reopened && keys.front() != 0;
            if (have_a && have_b) res.label("both_constructors");
            if (reopened) res.label("reopened");
        }
    } catch (const std::exception &e) {
        res.fail(std::string("operation threw on in-domain input: ") + e.what());
    }
    res.sum("queries", nq);
    return res;
}

// X(Epsilon, EpsilonRecursive, Floating): the slope type changes sizeof(Segment), hence the layout and alignment of the file header
#define VF_MAPPED_CONFIGS(X) X(1, 0, float) X(4, 4, double) X(8, 4, float) X(128, 0, double) X(1, 4, double) X(128, 4, float) X(1, 64, float)
constexpr int VF_MAPPED_NCFG = 7; // the last one routes by binary search (EpsilonRecursive above the linear-scan threshold of every key width)
#define VF_MAPPED_FN(E, ER, F) &run_mapped<VF_KEY, E, ER, F>,

} // namespace vf
