// e_conc: C16 — concurrent read-only queries on one object are race-free and consistent.
// Built with -fsanitize=thread and WITHOUT -fopenmp (libgomp is not TSan-instrumented; the headers then build sequentially).
#include "../common/engine.hpp"
#include "../common/keygen.hpp"
#include "pgm/pgm_index_dynamic.hpp"
#include "pgm/pgm_index_variants.hpp"
#include <algorithm>
#include <atomic>
#include <memory>
#include <sstream>
#include <thread>
#include <tuple>
#include <unistd.h>

// Accessor befriended by DynamicPGMIndex under PGM_INDEX_VERIF: used only to steer histories (is the deepest counted level empty?).
struct pgm::verif::Access {
    template<typename D> static bool deepest_level_empty(const D &d) { return d.used_levels > d.min_level && d.level(d.used_levels - 1).empty(); }
};

namespace vf {

static inline uint64_t mix(uint64_t h, uint64_t x) {
    h ^= x + 0x9E3779B97F4A7C15ull + (h << 6) + (h >> 2);
    return h * 0xff51afd7ed558ccdull;
}

struct Q {
    unsigned kind;
    size_t a, b;
};

// ------------------------------------------------------------------------------------------------ subjects

template<typename Index, typename K>
struct StaticSubj {
    std::unique_ptr<Index> obj;
    std::vector<K> keys, pool;
    std::string name;
    static constexpr unsigned kinds = 1;
    bool build(TapeReader &t, unsigned size_hint, std::string &desc, bool execute, const RunCtx &) {
        KeyMeta meta;
        GenOpts o;
        o.eps = 4;
        o.size_hint = std::min(size_hint, 70u);
        o.allow_threads = false;
        keys = gen_keys<K>(t, o, meta);
        // provenance of the object the readers share: as built (1/2), a copy-constructed object whose source is gone, a copy-assigned one
        // (members that a copy leaves to be fixed up lazily would be written by the first readers)
        const unsigned prov = (unsigned) t.below(4);
        desc = name + (prov == 2 ? " (copy-constructed, source destroyed) " : prov == 3 ? " (copy-assigned over another index, source destroyed) " : " ") + describe_keys(keys, meta);
        if (!execute) return true;
        pool = gen_queries<K>(keys, meta, 4, false, false);
        obj.reset(new Index(keys.begin(), keys.end()));
        if (prov == 2) {
            std::unique_ptr<Index> cp(new Index(*obj));
            obj = std::move(cp); // the source is destroyed here
        } else if (prov == 3) {
            std::vector<K> few(keys.begin(), keys.begin() + std::min<size_t>(keys.size(), 3));
            std::unique_ptr<Index> dst(new Index(few.begin(), few.end()));
            *dst = *obj;
            obj = std::move(dst);
        }
        return true;
    }
    size_t pool_size() const { return pool.size(); }
    uint64_t answer(const Q &q) const {
        auto r = obj->search(pool[q.a % pool.size()]);
        return mix(mix(r.pos, r.lo), r.hi);
    }
};

template<typename K>
struct MappedSubj {
    using Index = pgm::MappedPGMIndex<K, 4, 4>;
    std::unique_ptr<Index> obj;
    std::vector<K> keys, pool, hot;
    static constexpr unsigned kinds = 4;
    int fd_base = -1;
    bool reopen = false;
    bool build(TapeReader &t, unsigned size_hint, std::string &desc, bool execute, const RunCtx &ctx) {
        KeyMeta meta;
        GenOpts o;
        o.eps = 4;
        o.size_hint = std::min(size_hint, 70u);
        o.allow_threads = false;
        o.dup_heavy = true;
        o.max_n = 60000;
        keys = gen_keys<K>(t, o, meta);
        reopen = t.chance(1, 2);
        desc = std::string("MappedPGMIndex<") + type_name<K>() + ",4,4> " + (reopen ? "(reopened from its file) " : "(range-built) ") + describe_keys(keys, meta);
        if (!execute) return true;
        pool = gen_queries<K>(keys, meta, 4, false, false);
        { // "hot" keys: the (up to 8) keys with the longest runs; every other query goes to one of them
            std::vector<std::pair<size_t, K>> runs;
            for (size_t i = 0; i < keys.size();) {
                size_t j = i;
                while (j < keys.size() && keys[j] == keys[i]) ++j;
                runs.emplace_back(j - i, keys[i]);
                i = j;
            }
            std::sort(runs.begin(), runs.end(), [](auto &a, auto &b) { return a.first > b.first; });
            for (size_t i = 0; i < runs.size() && i < 8; ++i) hot.push_back(runs[i].second);
        }
        fd_base = open("/dev/null", O_RDONLY);
        if (fd_base >= 0) close(fd_base);
        obj.reset(new Index(keys.begin(), keys.end(), ctx.workdir + "/conc.pgm"));
        if (reopen) { // the readers then share a container loaded from an existing index file
            obj.reset();
            obj.reset(new Index(ctx.workdir + "/conc.pgm"));
        }
        return true;
    }
    ~MappedSubj() {
        obj.reset();
        if (fd_base >= 0)
            for (int fd = fd_base; fd < fd_base + 8; ++fd) close(fd);
    }
    size_t pool_size() const { return pool.size(); }
    uint64_t answer(const Q &q) const {
        const K &k = (q.b & 1) && !hot.empty() ? hot[(q.b >> 1) % hot.size()] : pool[q.a % pool.size()];
        switch (q.kind % kinds) {
            case 0: return mix(1, size_t(obj->lower_bound(k) - obj->begin()));
            case 1: return mix(2, size_t(obj->upper_bound(k) - obj->begin()));
            case 2: return mix(3, obj->count(k));
            default: return mix(4, obj->contains(k));
        }
    }
};

template<uint8_t D, typename T>
struct MdSubj {
    using Index = pgm::MultidimensionalPGMIndex<D, T, 4>;
    using Tuple = typename Index::value_type;
    std::unique_ptr<Index> obj;
    std::vector<Tuple> pts;
    std::vector<std::pair<Tuple, Tuple>> boxes;
    static constexpr unsigned kinds = 2;
    static Tuple mk(const uint64_t *c) {
        if constexpr (D == 2) return Tuple(T(c[0]), T(c[1]));
        else return Tuple(T(c[0]), T(c[1]), T(c[2]));
    }
    bool build(TapeReader &t, unsigned size_hint, std::string &desc, bool execute, const RunCtx &) {
        size_t n = 1 + t.below(size_hint < 30 ? 30 : 2500);
        unsigned bits = 1 + (unsigned) t.below(8);
        uint64_t seed = t.bits(64);
        desc = "MultidimensionalPGMIndex<" + std::to_string(D) + "," + (sizeof(T) == 4 ? "uint32_t" : "uint64_t") + ",4> n=" + std::to_string(n) + " bits=" + std::to_string(bits) + "\n";
        if (!execute) return true;
        SplitMix pr(seed);
        for (size_t i = 0; i < n; ++i) {
            uint64_t c[3] = {pr.next() & ((1u << bits) - 1), pr.next() & ((1u << bits) - 1), pr.next() & ((1u << bits) - 1)};
            pts.push_back(mk(c));
        }
        for (int b = 0; b < 24; ++b) {
            uint64_t lo[3], hi[3];
            for (int d = 0; d < 3; ++d) {
                uint64_t a = pr.next() & ((1u << bits) - 1), c = pr.next() & ((1u << bits) - 1);
                lo[d] = std::min(a, c), hi[d] = b % 3 == 0 ? lo[d] : std::max(a, c);
            }
            boxes.emplace_back(mk(lo), mk(hi));
        }
        obj.reset(new Index(pts.begin(), pts.end()));
        return true;
    }
    size_t pool_size() const { return pts.size() + boxes.size(); }
    static uint64_t th(const Tuple &p) {
        uint64_t h = 7;
        std::apply([&](auto... x) { ((h = mix(h, (uint64_t) x)), ...); }, p);
        return h;
    }
    uint64_t answer(const Q &q) const {
        if (q.kind % kinds == 0) {
            Tuple p = pts[q.a % pts.size()];
            if (q.b & 1) std::get<0>(p) ^= 1; // neighbour: often absent
            return mix(1, obj->contains(p));
        }
        auto &b = boxes[q.a % boxes.size()];
        uint64_t h = 2;
        size_t guard = 0;
        for (auto it = obj->range(b.first, b.second); it != obj->end() && guard < pts.size() + 2; ++it, ++guard) h = mix(h, th(*it));
        return mix(h, guard);
    }
};

template<typename K, typename V>
struct DynSubj {
    using Index = pgm::DynamicPGMIndex<K, V, pgm::PGMIndex<K, 4, 4>>;
    std::unique_ptr<Index> obj;
    std::vector<K> uni;
    static constexpr unsigned kinds = 6;
    static V val(uint64_t id) {
        if constexpr (std::is_same_v<V, std::string>) return "s" + std::to_string(id);
        else return (V) (id % 100000);
    }
    bool build(TapeReader &t, unsigned size_hint, std::string &desc, bool execute, const RunCtx &) {
        KeyMeta meta;
        GenOpts o;
        o.eps = 4;
        o.size_hint = std::min(size_hint, 60u);
        o.allow_threads = false;
        o.max_n = 3000;
        uni = gen_keys<K>(t, o, meta);
        uni.erase(std::unique(uni.begin(), uni.end()), uni.end());
        static const unsigned bases[] = {8, 2, 4, 16};
        unsigned base = bases[t.below(4)], bl = (unsigned) t.below(3), il = (unsigned) t.below(5);
        size_t n_ops = t.below(size_hint < 30 ? 40 : 2500);
        uint64_t seed = t.bits(64);
        // tail of the history: nothing / every key of the universe erased (the deepest level is drained by the cancelling merge and
        // stays counted) / the same followed by a few fresh inserts that stay in the upper levels
        unsigned tail = (unsigned) t.below(4);
        size_t tail_inserts = tail == 3 ? t.below(40) : 0;
        desc = std::string("DynamicPGMIndex<") + type_name<K>() + "," + (std::is_same_v<V, std::string> ? "std::string" : "uint32_t") + "> base=" + std::to_string(base) +
               " buffer_level=" + std::to_string(bl) + " index_level=" + std::to_string(il) + " universe=" + std::to_string(uni.size()) + " history=" + std::to_string(n_ops) +
               (tail >= 2 ? " then every key erased, then " + std::to_string(tail_inserts) + " inserts" : std::string()) + "\n";
        if (!execute) return true;
        SplitMix pr(seed);
        obj.reset(new Index((uint8_t) base, (uint8_t) bl, (uint8_t) il));
        for (size_t i = 0; i < n_ops; ++i) {
            K k = uni[pr.below(uni.size())];
            if (pr.below(4) == 0) obj->erase(k);
            else obj->insert_or_assign(k, val(pr.next()));
        }
        if (tail >= 2) {
            for (const K &k: uni) obj->erase(k);
            // keep pushing tombstones until the cancelling merge has reached the deepest level (bounded: histories are short)
            for (size_t i = 0; i < 40000 && !pgm::verif::Access::deepest_level_empty(*obj); ++i) obj->erase(uni[i % uni.size()]);
            for (size_t i = 0; i < tail_inserts; ++i) obj->insert_or_assign(uni[pr.below(uni.size())], val(pr.next()));
        }
        return true;
    }
    size_t pool_size() const { return uni.size(); }
    static uint64_t vh(const V &v) {
        if constexpr (std::is_same_v<V, std::string>) return std::hash<std::string>()(v);
        else return (uint64_t) v;
    }
    uint64_t answer(const Q &q) const {
        const K &k = uni[q.a % uni.size()];
        const Index &o = *obj;
        switch (q.kind % kinds) {
            case 0: {
                auto it = o.find(k);
                return it == o.end() ? 11 : mix(1, vh(it->second));
            }
            case 1: return mix(2, o.count(k));
            case 2: {
                auto it = o.lower_bound(k);
                return it == o.end() ? 33 : mix(3, (uint64_t) it->first);
            }
            case 3: {
                const K &k2 = uni[q.b % uni.size()];
                auto r = o.range(std::min(k, k2), std::max(k, k2));
                uint64_t h = 4;
                for (auto &p: r) h = mix(mix(h, (uint64_t) p.first), vh(p.second));
                return h;
            }
            case 4: { // iterate a few steps from lower_bound
                uint64_t h = 5;
                auto it = o.lower_bound(k);
                for (size_t s = 0; s < 1 + q.b % 20 && it != o.end(); ++s, ++it) h = mix(mix(h, (uint64_t) it->first), vh(it->second));
                return h;
            }
            default: return mix(6, (uint64_t) o.empty());
        }
    }
};

// ------------------------------------------------------------------------------------------------ driver

template<typename S>
CaseResult run_conc(const RunCtx &ctx, TapeReader &t, unsigned size_hint, S &subj) {
    CaseResult res;
    std::string desc;
    subj.build(t, size_hint, desc, ctx.execute, ctx);
    unsigned nthreads = 2 + (unsigned) t.below(15);
    size_t per_thread = 20 + t.below(size_hint < 30 ? 60 : 400);
    uint64_t script_seed = t.bits(64);
    bool shared_script = t.chance(1, 3); // all threads run the very same script (maximal overlap)
    if (ctx.want_desc) res.desc = desc + "threads=" + std::to_string(nthreads) + " queries_per_thread=" + std::to_string(per_thread) + (shared_script ? " (same script in every thread)" : "") + "\n";
    if (!ctx.execute) return res;

    std::vector<std::vector<Q>> scripts(nthreads);
    for (unsigned i = 0; i < nthreads; ++i) {
        SplitMix pr(shared_script ? script_seed : script_seed + i * 7919);
        for (size_t j = 0; j < per_thread; ++j) scripts[i].push_back({(unsigned) pr.below(16), (size_t) pr.next(), (size_t) pr.next()});
    }
    auto run_script = [&](const std::vector<Q> &s) {
        uint64_t h = 1;
        for (auto &q: s) h = mix(h, subj.answer(q));
        return h;
    };
    // The concurrent phase runs FIRST, on an object no query has touched yet (a lazily initialised member in a const query
    // path would otherwise be warmed up by the reference run and the race on its first use would stay invisible);
    // the sequential reference digests are computed afterwards on the same object.
    std::vector<uint64_t> alone(nthreads), together(nthreads, 0);
    // together, behind one barrier
    std::atomic<unsigned> ready{0};
    std::atomic<bool> go{false};
    std::vector<std::thread> th;
    for (unsigned i = 0; i < nthreads; ++i)
        th.emplace_back([&, i] {
            ready.fetch_add(1);
            while (!go.load(std::memory_order_acquire)) std::this_thread::yield();
            together[i] = run_script(scripts[i]);
        });
    while (ready.load() < nthreads) std::this_thread::yield();
    go.store(true, std::memory_order_release);
    for (auto &x: th) x.join();
    for (unsigned i = 0; i < nthreads; ++i) alone[i] = run_script(scripts[i]);
    for (unsigned i = 0; i < nthreads; ++i)
        if (alone[i] != together[i]) {
            res.fail("thread " + std::to_string(i) + " of " + std::to_string(nthreads) + " got different answers when run concurrently (digest " + std::to_string(together[i]) +
                     " vs " + std::to_string(alone[i]) + " alone)");
            break;
        }
    res.sum("threads", nthreads);
    res.sum("concurrent_queries", (uint64_t) nthreads * per_thread);
    // non-trivial: two different threads issued the very same query (same entry point, same key of the pool) - measured, not assumed
    {
        std::vector<std::pair<unsigned, size_t>> seen; // (entry point, pool index) of thread 0..i-1
        bool overlap = false;
        const size_t ps = std::max<size_t>(1, subj.pool_size());
        std::vector<std::vector<std::pair<unsigned, size_t>>> per(nthreads);
        for (unsigned i = 0; i < nthreads; ++i) {
            for (auto &q: scripts[i]) per[i].emplace_back(q.kind % S::kinds, q.a % ps);
            std::sort(per[i].begin(), per[i].end());
        }
        for (unsigned i = 1; i < nthreads && !overlap; ++i) {
            std::vector<std::pair<unsigned, size_t>> common;
            std::set_intersection(per[0].begin(), per[0].end(), per[i].begin(), per[i].end(), std::back_inserter(common));
            overlap = !common.empty();
        }
        res.nontrivial = overlap;
        if (overlap) res.label("nt_same_query_in_two_threads");
    }
    return res;
}

static CaseResult run(const RunCtx &ctx, const Tape &tape, Tape &canon) {
    TapeReader t(tape);
    unsigned size_hint = (unsigned) t.below(101);
    CaseResult r;
    auto go = [&](auto subj, const char *label) {
        r = run_conc(ctx, t, size_hint, subj);
        r.label(label);
    };
    auto named = [&](auto subj, const char *nm) {
        subj.name = nm;
        return subj;
    };
    switch (t.below(12)) {
        case 0: go(named(StaticSubj<pgm::PGMIndex<uint32_t, 4, 4>, uint32_t>(), "PGMIndex<uint32_t,4,4>"), "PGMIndex"); break;
        case 1: go(named(StaticSubj<pgm::PGMIndex<int64_t, 1, 64, double>, int64_t>(), "PGMIndex<int64_t,1,64,double>"), "PGMIndex"); break;
        case 2: go(named(StaticSubj<pgm::CompressedPGMIndex<uint32_t, 4, 4>, uint32_t>(), "CompressedPGMIndex<uint32_t,4,4>"), "CompressedPGMIndex"); break;
        case 3: go(named(StaticSubj<pgm::CompressedPGMIndex<uint64_t, 1, 0>, uint64_t>(), "CompressedPGMIndex<uint64_t,1,0>"), "CompressedPGMIndex"); break;
        case 4: go(named(StaticSubj<pgm::BucketingPGMIndex<uint32_t, 4, 128, 0>, uint32_t>(), "BucketingPGMIndex<uint32_t,4,128,0>"), "BucketingPGMIndex"); break;
        case 5: go(named(StaticSubj<pgm::EliasFanoPGMIndex<uint64_t, 4>, uint64_t>(), "EliasFanoPGMIndex<uint64_t,4>"), "EliasFanoPGMIndex"); break;
        case 6: go(MappedSubj<int32_t>(), "MappedPGMIndex"); break;
        case 7: go(MappedSubj<uint64_t>(), "MappedPGMIndex"); break;
        case 8: go(MdSubj<2, uint32_t>(), "MultidimensionalPGMIndex"); break;
        case 9: go(MdSubj<3, uint64_t>(), "MultidimensionalPGMIndex"); break;
        case 10: go(DynSubj<uint32_t, uint32_t>(), "DynamicPGMIndex"); break;
        default: go(DynSubj<int64_t, std::string>(), "DynamicPGMIndex"); break;
    }
    canon = t.canon();
    return r;
}

static const char *rule(const std::string &) {
    return "cases: one object of {PGMIndex, CompressedPGMIndex, BucketingPGMIndex, EliasFanoPGMIndex, MappedPGMIndex, MultidimensionalPGMIndex, DynamicPGMIndex "
           "after a generated update history} built single-threaded from generated data, then 2..16 std::threads started behind one barrier, each running a "
           "generated script of 20..420 queries drawn from one shared pool (search; lower/upper_bound, count, contains; contains and box ranges; find, count, "
           "lower_bound, range, iteration, empty); 1/3 of the cases run the same script in every thread. the concurrent phase runs first, on an object no query has touched (half of the "
           "MappedPGMIndex cases are reopened from their file). oracle: ThreadSanitizer reports nothing (halt_on_error, non-zero exit) and every "
           "thread's result digest equals the digest of the same script run alone afterwards. non-trivial: thread 0 "
           "and some other thread issued an identical query (same entry point, same element of the pool), measured per case; distinct by canonical tape hash";
}

const Engine ENGINE = {"e_conc", 512, &run, &rule};
} // namespace vf
