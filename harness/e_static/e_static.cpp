// e_static: dispatch (key type, configuration) -> instantiation; C01, C02, C07.
#include "static_cfg.hpp"

#ifdef _OPENMP
extern "C" int omp_get_num_procs(void) { return vf::g_fake_procs; }
#endif // let 17..20 threads give 17..20 chunks on a 16-core box

namespace vf {
#define VF_DECL(ID) extern const StaticFn STATIC_TABLE_##ID[VF_STATIC_NCFG];
VF_DECL(u8) VF_DECL(i8) VF_DECL(u16) VF_DECL(i16) VF_DECL(u32) VF_DECL(i32) VF_DECL(u64) VF_DECL(i64) VF_DECL(f32) VF_DECL(f64)
static const StaticFn *const TABLES[10] = {STATIC_TABLE_u32, STATIC_TABLE_u64, STATIC_TABLE_i32, STATIC_TABLE_i64, STATIC_TABLE_u8,
                                           STATIC_TABLE_i8, STATIC_TABLE_u16, STATIC_TABLE_i16, STATIC_TABLE_f32, STATIC_TABLE_f64};

static CaseResult run(const RunCtx &ctx, const Tape &tape, Tape &canon) {
    TapeReader t(tape);
    unsigned size_hint = (unsigned) t.below(101);
    static const unsigned tw[] = {3, 3, 2, 2, 1, 1, 1, 1, 2, 2};
    size_t kt = t.weighted(tw);
    size_t cfg;
    if (ctx.prop == "C07") cfg = VF_STATIC_REC_CFGS[t.below(sizeof(VF_STATIC_REC_CFGS) / sizeof(int))];
    else cfg = t.below(VF_STATIC_NCFG);
    if (ctx.mode == "mem" && t.chance(1, 2)) size_hint = std::min(size_hint, 12u); // C17: boundary sizes (n = 1, 2, 3) every other case
    CaseResult r = TABLES[kt][cfg](ctx, t, size_hint);
    canon = t.canon();
    return r;
}

static const char *rule(const std::string &prop) {
    if (prop == "C01")
        return "cases: sorted key arrays built from a generated recipe (DUP/STEP1/STRIDE/RANDGAP/STAIR/JUMP/TOP/DENSE blocks, "
               "size classes tiny..large, 1..20 threads, seam surgery) x 10 key types x 14 (Epsilon,EpsilonRecursive,Floating) "
               "configurations; queries = every distinct key (all when n<=4096, else 2000 sampled + seams + block borders). "
               "non-trivial: >=2 segments or >=1 duplicate run or chunked build; distinct by canonical tape hash";
    if (prop == "C02")
        return "cases as C01; queries = keys, key+-1/next representable, gap midpoints, lowest, first-1, last+1, max-1, powers of two, "
               "log-uniform far values (whole universe for 8-bit and 1/4 of 16-bit cases). non-trivial: some absent query falls "
               "(i) in the gap after a duplicate run, (ii) within 2eps+4 of a chunk seam of a chunked build, or (iii) farther than "
               "2^40 from the nearest key; distinct by canonical tape hash";
    return "cases as C02 restricted to EpsilonRecursive>0 configurations (both scan and binary-search routing); per query and level "
           "the routing hook reports predicted/first/chosen. non-trivial: index has >=3 levels and some query is absent or has "
           "|chosen-predicted| >= EpsRec; distinct by canonical tape hash";
}

const Engine ENGINE = {"e_static", 512, &run, &rule};
} // namespace vf
