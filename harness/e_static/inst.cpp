// One translation unit per key type: -DVF_KEY=<type> -DVF_KEYID=<identifier>
#include "static_cfg.hpp"
namespace vf {
#define VF_CAT2(a, b) a##b
#define VF_CAT(a, b) VF_CAT2(a, b)
extern const StaticFn VF_CAT(STATIC_TABLE_, VF_KEYID)[VF_STATIC_NCFG] = {VF_STATIC_CONFIGS(VF_STATIC_FN)};
}
