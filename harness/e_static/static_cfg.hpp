// e_static: PGMIndex<K, Epsilon, EpsilonRecursive, Floating> — C01, C02, C07.
#pragma once
#include "../common/engine.hpp"
#include "../common/keygen.hpp"
#include "pgm/pgm_index.hpp"
#include <deque>
#include <sstream>

namespace vf {

// EpsilonRecursive "kinds": the value depends on the linear-scan threshold T of the instantiation.
template<typename K, typename F>
constexpr size_t seg_threshold() { return 8 * 64 / (sizeof(K) + sizeof(F) + 4); } // packed Segment {K, F, uint32}

template<typename K, typename F>
constexpr size_t erec_of(int kind) {
    switch (kind) {
        case 0: return 0;
        case 1: return 1;
        case 2: return 2;
        case 3: return 4;
        case 4: return 16;
        case 5: return seg_threshold<K, F>();
        case 6: return seg_threshold<K, F>() + 1;
        case 7: return 256;
        default: return 1024;
    }
}

// X(Epsilon, ER kind, Floating)
#define VF_STATIC_CONFIGS(X) \
    X(1, 0, float) X(1, 1, float) X(2, 2, double) X(3, 0, double) X(4, 3, float) X(8, 5, float) X(16, 6, float) \
    X(64, 3, double) X(128, 7, float) X(1024, 8, double) X(2, 4, float) X(4, 6, double) X(1, 6, float) X(2, 5, double)

constexpr int VF_STATIC_NCFG = 14;
// configurations with EpsilonRecursive > 0 (C07 needs a recursive index)
constexpr int VF_STATIC_REC_CFGS[] = {1, 2, 4, 5, 6, 7, 8, 9, 10, 11, 12, 13};

using StaticFn = CaseResult (*)(const RunCtx &, TapeReader &, unsigned size_hint);

template<typename K, size_t Eps, size_t ER, typename F>
struct StaticProbe : pgm::PGMIndex<K, Eps, ER, F> {
    using Base = pgm::PGMIndex<K, Eps, ER, F>;
    using Base::Base;
    using Base::levels_offsets;
    using Base::segments;
    using Base::first_key;
    using Base::n;
    size_t level_entries(size_t l) const { return levels_offsets[l + 1] - levels_offsets[l]; }
    K seg_key(size_t l, size_t i) const { return segments[levels_offsets[l] + i].key; }
    /// rightmost segment of level l (sentinel excluded) whose key is <= k
    size_t rightmost_le(size_t l, K k) const {
        size_t cnt = level_entries(l) - 1, lo = 0, hi = cnt;
        while (lo < hi) { // first index with key > k
            size_t mid = (lo + hi) / 2;
            if (seg_key(l, mid) <= k) lo = mid + 1;
            else hi = mid;
        }
        return lo == 0 ? 0 : lo - 1;
    }
};

template<typename K, size_t Eps, size_t ER, typename F>
CaseResult run_static(const RunCtx &ctx, TapeReader &t, unsigned size_hint) {
    CaseResult res;
    KeyMeta meta;
    GenOpts o;
    o.eps = Eps;
    o.size_hint = size_hint;
    if ((ctx.prop == "C01" || ctx.prop == "C02") && ctx.mode != "mem") o.max_n = size_t(1) << 23, o.allow_giant = true;
    if (ctx.prop == "C07") o.max_n = size_t(1) << 22; // upper levels with >= 2^15 segments are themselves built in chunks
    o.xkeys = ctx.x("xkeys");
    o.xthreads = ctx.x("xthreads");
    o.xprocs = ctx.x("xprocs");
    o.far_tail = true;
    o.hull_stress = true; // > 2^16 hull vertices in one segment: the builder's hull vectors outgrow the room they were created with
    o.hull_stress_often = ctx.mode == "mem";
    std::vector<K> keys = gen_keys<K>(t, o, meta);
    const bool nested = t.chance(1, 10); // construct from inside a caller's OpenMP parallel region
    // a second index of the same instantiation, built later over every other key, is alive during the queries and queried itself
    const bool bystander = t.chance(1, 6) && keys.size() <= (size_t(1) << 20);
    // the range handed to the constructor: vector iterators (1/2), std::deque iterators (random access, not contiguous), raw pointers
    const unsigned src = (unsigned) t.below(4);
    const size_t n = keys.size();
    const bool c01 = ctx.prop == "C01", c02 = ctx.prop == "C02", c07 = ctx.prop == "C07";
    const bool mem = ctx.mode == "mem";

    auto describe = [&]() {
        std::ostringstream d;
        d << "PGMIndex<" << type_name<K>() << "," << Eps << "," << ER << "," << type_name<F>() << "> ";
        d << describe_keys(keys, meta);
        return d.str();
    };
    if (ctx.want_desc) {
        res.desc = describe();
        std::string xk = keys_to_text(keys);
        if (!xk.empty()) {
            res.xdata.emplace_back("xkeys", xk);
            res.xdata.emplace_back("xthreads", std::to_string(meta.threads));
            res.xdata.emplace_back("xprocs", std::to_string(meta.procs));
        }
    }
    if (!ctx.execute) return res;

    vf_set_threads(meta.threads);
    std::vector<pgm::verif::SegSession<K>> sessions;
    if (c07) pgm::verif::SegLog<K>::sink = &sessions;
    StaticProbe<K, Eps, ER, F> idx;
    try {
        run_maybe_nested(nested, [&] {
            if (src == 2 && n <= (size_t(1) << 20)) {
                std::deque<K> dq(keys.begin(), keys.end());
                idx = StaticProbe<K, Eps, ER, F>(dq.begin(), dq.end());
            } else if (src == 3)
                idx = StaticProbe<K, Eps, ER, F>(keys.data(), keys.data() + n);
            else
                idx = StaticProbe<K, Eps, ER, F>(keys.begin(), keys.end());
        });
        if (src == 2 && n <= (size_t(1) << 20)) res.label("source_deque_iterators");
        if (src == 3) res.label("source_raw_pointers");
        if (nested) res.label("built_inside_parallel_region");
    } catch (const std::exception &e) {
        pgm::verif::SegLog<K>::sink = nullptr;
        res.fail(std::string("construction threw on in-domain input: ") + e.what());
        return res;
    }
    pgm::verif::SegLog<K>::sink = nullptr;
    std::vector<K> by_keys;
    StaticProbe<K, Eps, ER, F> by_idx;
    if (bystander) {
        for (size_t i = 0; i < keys.size(); i += 2) by_keys.push_back(keys[i]);
        by_idx = StaticProbe<K, Eps, ER, F>(by_keys.begin(), by_keys.end());
        res.label("bystander_index_alive");
    }

    std::vector<K> queries = gen_queries<K>(keys, meta, Eps, c01, true);

    // labels
    res.label(meta.size_class);
    if (meta.chunks > 1) res.label("chunked");
    if (meta.has_dup) res.label("dups");
    if (meta.seam_surgery) res.label("seam_surgery");
    if (ER > seg_threshold<K, F>()) res.label("binary_search_routing");
    if (ER == 0) res.label("one_level");
    if (idx.segments_count() >= 2) res.label("ge2_segments");
    if (idx.height() >= 3) res.label("ge3_levels");
    if (meta.top_reached) res.label("has_max_minus_1");
    if (meta.starts_lowest) res.label("starts_at_lowest");
    if (meta.excluded_known) res.label("excluded_known_KF4_run_of_2^24_or_more_capped");

    bool nt_gap_after_dup = false, nt_near_seam = false, nt_far = false, nt_c07 = false;
    uint64_t nq = 0;
    size_t worst_dev = 0;

    std::vector<pgm::verif::RouteEvent> events;
    if (c07) pgm::verif::route_sink = &events;

    for (const K &q: queries) {
        if constexpr (std::is_floating_point_v<K>) {
            if (!std::isfinite(q)) throw HarnessBug("non-finite query");
        } else if (q == std::numeric_limits<K>::max()) throw HarnessBug("reserved query");
        events.clear();
        pgm::ApproxPos r = idx.search(q);
        ++nq;
        if (mem) continue;
        size_t L = size_t(std::lower_bound(keys.begin(), keys.end(), q) - keys.begin());
        bool present = L < n && keys[L] == q;

        auto where = [&]() {
            std::ostringstream m;
            m << "query=" << key_str(q) << " search={pos=" << r.pos << ",lo=" << r.lo << ",hi=" << r.hi << "} lower_bound="
              << L << " n=" << n << (present ? " (present)" : " (absent)");
            return m.str();
        };

        if (c01 || c02) {
            if (!(r.lo <= r.hi && r.hi <= n)) {
                res.fail("range not inside [0,n]: " + where());
                break;
            }
        }
        if (c01 && present) {
            if (r.hi - r.lo > 2 * Eps + 2) {
                res.fail("range wider than 2*eps+2: " + where());
                break;
            }
            if (r.lo > r.pos) {
                res.fail("lo > pos: " + where());
                break;
            }
            if (!(r.lo <= L && L < r.hi)) {
                res.fail("first occurrence outside [lo,hi): " + where());
                break;
            }
        }
        if (c02) {
            size_t Lr = size_t(std::lower_bound(keys.begin() + r.lo, keys.begin() + r.hi, q) - keys.begin());
            if (Lr != L) {
                res.fail("lower_bound in [lo,hi) = " + std::to_string(Lr) + " differs from global: " + where());
                break;
            }
            if (!present) {
                if (L > 0 && L >= 2 && keys[L - 1] == keys[L - 2]) nt_gap_after_dup = true;
                if (meta.chunks > 1)
                    for (size_t s: meta.seams)
                        if ((L > s ? L - s : s - L) <= 2 * Eps + 4) nt_near_seam = true;
                long double dist = 1e300L;
                if (L < n) dist = std::min(dist, (long double) keys[L] - (long double) q);
                if (L > 0) dist = std::min(dist, (long double) q - (long double) keys[L - 1]);
                if (dist > 1099511627776.0L) nt_far = true;
            }
        }
        if (c07) {
            // top-down routing: one event per level below the root, from level height-2 down to 0
            K k = std::max(idx.first_key, q);
            size_t expect_levels = idx.height() >= 1 ? idx.height() - 1 : 0;
            if (events.size() != expect_levels) {
                res.fail("routing visited " + std::to_string(events.size()) + " levels, index has " +
                         std::to_string(expect_levels) + " below the root: " + where());
                break;
            }
            bool bad = false;
            for (auto &e: events) {
                size_t right = idx.rightmost_le((size_t) e.level, k);
                size_t win_lo = e.predicted > ER + 1 ? e.predicted - (ER + 1) : 0;
                size_t dev = e.chosen > e.predicted ? e.chosen - e.predicted : e.predicted - e.chosen;
                worst_dev = std::max(worst_dev, dev);
                std::ostringstream m;
                m << "level " << e.level << " predicted=" << e.predicted << " first_inspected=" << e.first << " chosen="
                  << e.chosen << " responsible=" << right << " level_entries=" << e.level_size << " EpsRec=" << ER << ": ";
                // The chosen segment must be responsible for the key: key[chosen] <= k < key[chosen + 1] (chosen == 0 also for keys below
                // the level).  On a sorted level that is THE rightmost segment with key <= k.  A level can end with the library's extra
                // (data_last + 1) segment behind a segment keyed data_last + 2 (the closing point of the level below that opened a
                // segment of its own): such a level is not sorted at its very end, two segments satisfy the condition for the key
                // data_last + 1, and the property - the responsible segment is within EpsRec+1 of the prediction, the scan stays in
                // the window - holds for either.  Demanding the rightmost one there was a false alarm of the thorough tier.
                {
                    const size_t cnt = idx.level_entries((size_t) e.level) - 1; // sentinel excluded
                    const bool lower_ok = e.chosen == 0 || idx.seg_key((size_t) e.level, e.chosen) <= k;
                    const bool upper_ok = e.chosen + 1 >= cnt + 1 || idx.seg_key((size_t) e.level, e.chosen + 1) > k;
                    if (e.chosen >= cnt || !lower_ok || !upper_ok) {
                        res.fail("routing chose a segment that is not responsible for the key (key[chosen] <= query < key[chosen+1] fails): " + m.str() + where());
                        bad = true;
                        break;
                    }
                }
                if (dev > ER + 1) {
                    res.fail("responsible segment farther than EpsRec+1 from the prediction: " + m.str() + where());
                    bad = true;
                    break;
                }
                if (e.first != win_lo) {
                    res.fail("scan starts outside the window [pos-(EpsRec+1), ...): " + m.str() + where());
                    bad = true;
                    break;
                }
                if (e.chosen < e.first || e.chosen - e.first > 2 * ER + 2) {
                    res.fail("more than 2*EpsRec+3 segments inspected in one level: " + m.str() + where());
                    bad = true;
                    break;
                }
                if (dev >= ER || !present) nt_c07 = true;
            }
            if (bad) break;
        }
    }
    pgm::verif::route_sink = nullptr;
    if (bystander && res.ok && !c07) {
        size_t done = 0;
        for (const K &q: queries) {
            if (done++ >= 200) break;
            pgm::ApproxPos r = by_idx.search(q);
            ++nq;
            if (mem) continue;
            size_t L = size_t(std::lower_bound(by_keys.begin(), by_keys.end(), q) - by_keys.begin());
            bool ok = r.lo <= r.hi && r.hi <= by_keys.size();
            if (ok) ok = size_t(std::lower_bound(by_keys.begin() + r.lo, by_keys.begin() + r.hi, q) - by_keys.begin()) == L;
            if (ok && L < by_keys.size() && by_keys[L] == q) ok = r.lo <= L && L < r.hi && r.hi - r.lo <= 2 * Eps + 2;
            if (!ok) {
                std::ostringstream m;
                m << "second index over every other key (built after, alive with the first): query=" << key_str(q) << " search={pos=" << r.pos << ",lo=" << r.lo
                  << ",hi=" << r.hi << "} lower_bound=" << L << " n=" << by_keys.size();
                res.fail(m.str());
                break;
            }
        }
    }
    res.sum("queries", nq);

    if (c07 && res.ok && !mem) {
        // level sizes: sessions of one make_segmentation_par call share n and are contiguous in the log
        std::vector<std::pair<size_t, size_t>> lv; // (n fed, sessions)
        for (auto &s: sessions) {
            if (lv.empty() || lv.back().first != s.n) lv.emplace_back(s.n, 1);
            else ++lv.back().second;
        }
        // lv[0] = bottom level over the keys; lv[j] (j >= 1) was fed the lv[j].first segments of level j-1
        for (size_t j = 1; j + 1 < lv.size(); ++j) {
            size_t m_below = lv[j].first;  // segments of level j-1, indexed by level j
            size_t segs = lv[j + 1].first; // segments of level j, indexed by level j+1
            size_t c = chunk_count(m_below, meta.threads);
            size_t bound = m_below / (2 * ER + 1) + c;
            if (segs > bound) {
                res.fail("level " + std::to_string(j) + " has " + std::to_string(segs) + " segments over " +
                         std::to_string(m_below) + " keys, bound floor(m/(2*EpsRec+1))+c = " + std::to_string(bound));
                break;
            }
        }
        res.max("worst_routing_deviation_minus_EpsRec", (double) worst_dev - (double) ER);
    }

    if (c01) res.nontrivial = idx.segments_count() >= 2 || meta.has_dup || meta.chunks > 1;
    if (c02) {
        res.nontrivial = nt_gap_after_dup || nt_near_seam || nt_far;
        if (nt_gap_after_dup) res.label("nt_gap_after_dup_run");
        if (nt_near_seam) res.label("nt_absent_query_near_seam");
        if (nt_far) res.label("nt_far_query");
    }
    if (c07) res.nontrivial = idx.height() >= 3 && nt_c07;
    if (mem) res.nontrivial = n <= 3 || meta.starts_lowest || meta.top_reached || meta.chunks > 1;
    if (!res.ok && ctx.want_desc) res.desc = describe();
    return res;
}

#define VF_STATIC_FN(E, RK, F) &run_static<VF_KEY, E, erec_of<VF_KEY, F>(RK), F>,

} // namespace vf
