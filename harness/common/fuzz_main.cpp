// libFuzzer front end: the fuzzer's bytes are the choice tape (8 bytes per word, little endian) of the same decoders and
// oracles the rapidcheck driver uses.  clang++ -fsanitize=fuzzer,address ; configuration through environment variables:
//   VF_PROP (e.g. C10)  VF_MODE (sem|mem)  VF_WORKDIR  VF_FOUND (directory for replay files)  VF_STATS (json written at exit)
// An oracle failure writes a replay file (tape + explicit data) and traps, so libFuzzer saves the crashing input as well.
#include "engine.hpp"
#include <cinttypes>
#include <cstdio>
#include <cstdlib>
#include <cstring>
#include <fstream>
#include <sstream>
#include <string>
#include <unordered_set>

using namespace vf;

namespace {
struct State {
    RunCtx ctx;
    std::string found, stats;
    uint64_t execs = 0, nontrivial = 0, discards = 0;
    std::unordered_set<uint64_t> hashes;
    std::vector<std::string> samples;
    bool init = false;
} S;

std::string jesc(const std::string &s) {
    std::string o;
    for (unsigned char c: s) {
        if (c == '"' || c == '\\') o += '\\', o += char(c);
        else if (c == '\n') o += "\\n";
        else if (c < 0x20) o += ' ';
        else o += char(c);
    }
    return o;
}

void write_stats() {
    if (S.stats.empty()) return;
    std::ofstream f(S.stats);
    f << "{\"engine\":\"" << ENGINE.name << "\",\"prop\":\"" << S.ctx.prop << "\",\"evaluations\":" << S.execs << ",\"nontrivial\":" << S.nontrivial
      << ",\"distinct_nontrivial\":" << S.hashes.size() << ",\"discards\":" << S.discards << ",\"samples\":[";
    for (size_t i = 0; i < S.samples.size(); ++i) f << (i ? "," : "") << "\"" << jesc(S.samples[i]) << "\"";
    f << "]}\n";
    std::ofstream hf(S.stats + ".hashes", std::ios::binary);
    for (uint64_t h: S.hashes) hf.write((const char *) &h, sizeof h);
}

void init() {
    S.init = true;
    auto env = [](const char *k, const char *d) {
        const char *v = getenv(k);
        return std::string(v ? v : d);
    };
    S.ctx.prop = env("VF_PROP", "");
    S.ctx.mode = env("VF_MODE", "sem");
    S.ctx.workdir = env("VF_WORKDIR", ".");
    S.found = env("VF_FOUND", ".");
    S.stats = env("VF_STATS", "");
    atexit(write_stats);
}

std::string tape_text(const Tape &t) {
    std::string s;
    char b[32];
    for (size_t i = 0; i < t.size(); ++i) {
        snprintf(b, sizeof b, i ? " %" PRIu64 : "%" PRIu64, t[i]);
        s += b;
    }
    return s;
}
} // namespace

extern "C" int LLVMFuzzerTestOneInput(const uint8_t *data, size_t size) {
    if (!S.init) init();
    Tape t(size / 8);
    for (size_t i = 0; i < t.size(); ++i) memcpy(&t[i], data + 8 * i, 8);
    if (t.empty()) return 0;
    t[0] %= 101; // word 0 is the size hint
    Tape canon;
    RunCtx c = S.ctx;
    c.want_desc = S.samples.size() < 4;
    CaseResult r;
    try {
        r = ENGINE.run(c, t, canon);
        mem_mode_filter(c, r);
    } catch (const HarnessBug &e) {
        fprintf(stderr, "HARNESS-BUG %s\n", e.what());
        write_stats();
        _Exit(2);
    }
    ++S.execs;
    if (r.discard) ++S.discards;
    if (r.ok && r.nontrivial && !r.discard) {
        ++S.nontrivial;
        S.hashes.insert(hash_tape(canon, std::hash<std::string>()(S.ctx.prop)));
        if (S.samples.size() < 4) S.samples.push_back(r.desc.substr(0, 1200));
    }
    if (!r.ok) {
        RunCtx d = S.ctx;
        d.want_desc = true;
        d.execute = false;
        Tape cc;
        CaseResult dr;
        try {
            dr = ENGINE.run(d, t, cc);
        } catch (...) {}
        char name[64];
        snprintf(name, sizeof name, "/fuzz-%016" PRIx64 ".case", hash_tape(canon, 1));
        std::string path = S.found + name;
        std::ofstream f(path);
        std::string m = r.msg;
        for (auto &ch: m)
            if (ch == '\n') ch = ' ';
        f << "engine=" << ENGINE.name << "\nprop=" << S.ctx.prop << "\nmode=" << S.ctx.mode << "\ntape=" << tape_text(canon) << "\nmsg=" << m << "\n";
        for (auto &kv: dr.xdata) f << kv.first << "=" << kv.second << "\n";
        std::istringstream ds(dr.desc);
        std::string line;
        while (std::getline(ds, line)) f << "# " << line << "\n";
        f.close();
        fprintf(stderr, "FUZZ-FAILING-CASE %s\n%s\n", path.c_str(), r.msg.c_str());
        write_stats();
        __builtin_trap();
    }
    return 0;
}
