// Interface between the generic driver (pbt_main.cpp / fuzz_main.cpp) and an engine.
#pragma once
#include <cstdlib>
#include "tape.hpp"
#include <map>
#include <stdexcept>
#include <string>
#include <utility>
#include <vector>

namespace vf {

/// Thrown when the harness catches itself producing an out-of-domain input: exit code 2, never a VIOLATION.
struct HarnessBug : std::runtime_error {
    using std::runtime_error::runtime_error;
};

struct CaseResult {
    bool ok = true;            ///< oracle verdict
    bool discard = false;      ///< outside the property's domain (counted, treated as trivial pass)
    bool nontrivial = false;   ///< satisfies the property's non-trivial rule
    std::string msg;           ///< failure message (got / expected)
    std::string desc;          ///< human readable description of the case (only when ctx.want_desc)
    std::vector<const char *> labels;                  ///< generator classes this case belongs to
    std::vector<std::pair<const char *, uint64_t>> sums; ///< additive counters (queries checked, ...)
    std::vector<std::pair<const char *, double>> maxs;   ///< maxima (worst residual, ...)
    /// explicit form of the generated data ("xkeys" -> "...") written to replay files so that a saved case does not
    /// depend on the generator staying bit-for-bit stable (only filled when ctx.want_desc)
    std::vector<std::pair<std::string, std::string>> xdata;

    void fail(std::string m) {
        if (ok) {
            ok = false;
            msg = std::move(m);
        }
    }
    void label(const char *l) { labels.push_back(l); }
    void sum(const char *k, uint64_t v) { sums.emplace_back(k, v); }
    void max(const char *k, double v) { maxs.emplace_back(k, v); }
};

struct RunCtx {
    std::string prop;        ///< "C02"
    std::string mode;        ///< "sem" (semantic oracle) or "mem" (ASan is the oracle; semantic mismatches ignored)
    bool want_desc = false;  ///< fill CaseResult::desc
    bool execute = true;     ///< false: decode only (canonicalisation for the shrinker)
    std::string workdir;     ///< scratch directory of this shard (mapped-index files)
    std::map<std::string, std::string> xdata; ///< explicit data from a replay file (overrides the generator)
    const std::string *x(const char *k) const {
        auto it = xdata.find(k);
        return it == xdata.end() ? nullptr : &it->second;
    }
};

/// In --mode mem (C17) AddressSanitizer is the only oracle: an oracle failure that is not a crash (a wrong answer, an
/// exception on in-domain input) belongs to the semantic property of that engine, never to C17, and is dropped here.
inline void mem_mode_filter(const RunCtx &ctx, CaseResult &r) {
    if (ctx.mode == "mem" && !r.ok) {
        r.ok = true;
        r.msg.clear();
        r.label("mem_mode_semantic_mismatch_ignored");
    }
}

struct Engine {
    const char *name;
    size_t tape_len;                                   ///< words generated per case
    CaseResult (*run)(const RunCtx &, const Tape &, Tape &canon);
    const char *(*rule)(const std::string &prop);      ///< text of the generation + non-trivial rule
};

extern const Engine ENGINE;

/// The query named by a replay file (`xquery=`), or nullptr: set by the driver before a replayed case runs, read by gen_queries().
inline const std::string *&replay_xquery() {
    static const std::string *q = nullptr;
    return q;
}

/// e_seg, C03: the "beyond 2^32 points" class is selected by the driver (environment, thorough tier) or by a replay file of such a case.
inline bool beyond32_mode(const RunCtx &ctx) { return ctx.prop == "C03" && (getenv("VF_C03_BEYOND32") != nullptr || ctx.x("xbeyond32") != nullptr); }

} // namespace vf
