// Choice tape: every random decision of a generated case is one 64-bit word of a tape.
// rapidcheck (seeded) or libFuzzer (bytes) produce the tape; the decoder of an engine turns it into a
// structured case by *construction*.  While decoding, the reader records the canonical tape (the value
// actually used for each choice), which is what is hashed, shrunk, printed and stored in replay files.
#pragma once
#include <cstdint>
#include <cstddef>
#include <string>
#include <vector>

namespace vf {

using Tape = std::vector<uint64_t>;

class TapeReader {
    const Tape &in;
    size_t pos = 0;
    Tape canon_;

public:
    explicit TapeReader(const Tape &t) : in(t) { canon_.reserve(256); }

    uint64_t raw() {
        uint64_t v = pos < in.size() ? in[pos] : 0;
        ++pos;
        return v;
    }

    /// uniform-ish in [0, n); n >= 1. 0 is the "simplest" choice.
    uint64_t below(uint64_t n) {
        uint64_t v = n <= 1 ? 0 : raw() % n;
        if (n <= 1) raw();
        canon_.push_back(v);
        return v;
    }

    /// inclusive range
    uint64_t range(uint64_t lo, uint64_t hi) { return lo + below(hi - lo + 1); }

    /// b random bits, 0 <= b <= 64
    uint64_t bits(unsigned b) {
        uint64_t v = raw();
        if (b == 0) v = 0;
        else if (b < 64) v &= ((uint64_t(1) << b) - 1);
        canon_.push_back(v);
        return v;
    }

    /// true with probability num/den; a zero word gives false
    bool chance(uint64_t num, uint64_t den) { return below(den) >= den - num; }

    /// log-uniform value with at most maxbits significant bits (0 included)
    uint64_t loguniform(unsigned maxbits) {
        unsigned b = (unsigned) below(maxbits + 1);
        if (b == 0) return 0;
        if (b == 1) return 1;
        return (uint64_t(1) << (b - 1)) | bits(b - 1);
    }

    /// index chosen by integer weights
    template<size_t N>
    size_t weighted(const unsigned (&w)[N]) {
        uint64_t tot = 0;
        for (auto x: w) tot += x;
        uint64_t v = below(tot);
        // canonical form keeps v; map to index
        for (size_t i = 0; i < N; ++i) {
            if (v < w[i]) return i;
            v -= w[i];
        }
        return N - 1;
    }

    template<typename T, size_t N>
    T pick(const T (&arr)[N]) { return arr[below(N)]; }

    size_t consumed() const { return pos; }
    const Tape &canon() const { return canon_; }
};

inline uint64_t hash_tape(const Tape &t, uint64_t salt = 0) {
    uint64_t h = 0x9E3779B97F4A7C15ull ^ salt;
    for (uint64_t x: t) {
        h ^= x + 0x9E3779B97F4A7C15ull + (h << 6) + (h >> 2);
        h *= 0xff51afd7ed558ccdull;
        h ^= h >> 33;
    }
    return h;
}

/// Small deterministic PRNG for derived choices (seeded from a tape word so the case stays a pure value).
struct SplitMix {
    uint64_t s;
    explicit SplitMix(uint64_t seed) : s(seed) {}
    uint64_t next() {
        uint64_t z = (s += 0x9E3779B97F4A7C15ull);
        z = (z ^ (z >> 30)) * 0xBF58476D1CE4E5B9ull;
        z = (z ^ (z >> 27)) * 0x94D049BB133111EBull;
        return z ^ (z >> 31);
    }
    uint64_t below(uint64_t n) { return n <= 1 ? 0 : next() % n; }
};

} // namespace vf
