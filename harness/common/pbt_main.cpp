// Generic rapidcheck driver: generates choice tapes, hands them to the engine, collects evidence counters,
// lets rapidcheck shrink failing tapes with a tape-aware shrinker, writes replay files.
//
//   e_xxx --prop C02 --seed 7 --cases 2000 --maxsize 100 --out stats.json [--mode mem] [--workdir DIR]
//   e_xxx --prop C02 --replay FILE            exit 0 = passes now, 1 = fails, 2 = harness error
//   e_xxx --prop C02 --minimize FILE --out F  fork-based tape minimiser for crashing inputs
//
// Exit codes of a generation run: 0 = all cases passed, 1 = a failing case was found (replay written),
// 2 = harness / generator bug.  Any other status (signal, sanitizer abort) means the in-flight case crashed.
#include "engine.hpp"
#include <rapidcheck.h>

#include <algorithm>
#include <cerrno>
#include <cinttypes>
#include <cstdio>
#include <cstdlib>
#include <cstring>
#include <ctime>
#include <fcntl.h>
#include <fstream>
#include <set>
#include <sstream>
#include <sys/stat.h>
#include <sys/wait.h>
#include <unistd.h>
#include <unordered_set>

using namespace vf;

namespace {

struct Args {
    std::string prop, mode = "sem", out, replay, minimize, workdir = ".", inflight, corpus, bytes, history;
    uint64_t seed = 1;
    long cases = 100;
    int maxsize = 100;
    long shrink_budget = 4000;
    long max_seconds = 900; ///< wall-clock limit of --minimize (affects only how small the replay gets, never the verdict)
};

struct Stats {
    uint64_t evaluations = 0, discards = 0, nontrivial = 0, shrink_execs = 0;
    std::unordered_set<uint64_t> nt_hashes;
    std::map<std::string, uint64_t> labels, sums;
    std::map<std::string, double> maxs;
    std::vector<std::string> samples;
};

std::string json_escape(const std::string &s) {
    std::string o;
    for (unsigned char c: s) {
        switch (c) {
            case '"': o += "\\\""; break;
            case '\\': o += "\\\\"; break;
            case '\n': o += "\\n"; break;
            case '\t': o += "\\t"; break;
            default:
                if (c < 0x20) {
                    char b[8];
                    snprintf(b, sizeof b, "\\u%04x", c);
                    o += b;
                } else o += char(c);
        }
    }
    return o;
}

std::string tape_to_string(const Tape &t) {
    std::string s;
    char b[32];
    for (size_t i = 0; i < t.size(); ++i) {
        snprintf(b, sizeof b, i ? " %" PRIu64 : "%" PRIu64, t[i]);
        s += b;
    }
    return s;
}

Tape tape_from_string(const std::string &s) {
    Tape t;
    const char *p = s.c_str();
    while (*p) {
        while (*p == ' ') ++p;
        if (!*p) break;
        char *e;
        errno = 0;
        unsigned long long v = strtoull(p, &e, 10);
        if (e == p) throw HarnessBug("bad tape word in replay file");
        t.push_back(v);
        p = e;
    }
    return t;
}

void write_replay(const std::string &path, const Args &a, const Tape &canon, const std::string &msg,
                  const std::string &desc, const std::vector<std::pair<std::string, std::string>> &xdata = {}) {
    std::ofstream f(path);
    f << "engine=" << ENGINE.name << "\n";
    f << "prop=" << a.prop << "\n";
    f << "mode=" << a.mode << "\n";
    f << "tape=" << tape_to_string(canon) << "\n";
    std::string m = msg;
    std::replace(m.begin(), m.end(), '\n', ' ');
    f << "msg=" << m << "\n";
    for (auto &kv: xdata) f << kv.first << "=" << kv.second << "\n";
    { // the query the case failed on, taken from the oracle's message ("... query=<key> ..."), unless the engine already named one
        bool have = false;
        for (auto &kv: xdata) have |= kv.first == "xquery";
        auto p = m.find("query=");
        if (!have && p != std::string::npos) {
            auto e = m.find_first_of(" ,)", p + 6);
            std::string q = m.substr(p + 6, e == std::string::npos ? std::string::npos : e - (p + 6));
            if (!q.empty() && (isdigit((unsigned char) q[0]) || q[0] == '-')) f << "xquery=" << q << "\n";
        }
    }
    std::istringstream ds(desc);
    std::string line;
    while (std::getline(ds, line)) f << "# " << line << "\n";
}

/// `warmup_tape=` lines (any number, before or after `tape=`): cases executed first, in file order, in the same process; their verdicts
/// are ignored.  They are the earlier part of a history when a failure depends on state that an earlier case left behind in the
/// library (a function-local static, a thread_local buffer, a static member).
bool read_replay(const std::string &path, std::string &prop, std::string &mode, Tape &tape,
                 std::map<std::string, std::string> *xdata = nullptr, std::vector<Tape> *warmups = nullptr) {
    std::ifstream f(path);
    if (!f) return false;
    std::string line;
    bool have = false;
    while (std::getline(f, line)) {
        if (line.rfind("prop=", 0) == 0) prop = line.substr(5);
        else if (line.rfind("mode=", 0) == 0) mode = line.substr(5);
        else if (line.rfind("tape=", 0) == 0) {
            tape = tape_from_string(line.substr(5));
            have = true;
        } else if (line.rfind("warmup_tape=", 0) == 0) {
            if (warmups) warmups->push_back(tape_from_string(line.substr(12)));
        } else if (xdata && line.size() > 1 && line[0] == 'x') {
            auto eq = line.find('=');
            if (eq != std::string::npos) (*xdata)[line.substr(0, eq)] = line.substr(eq + 1);
        }
    }
    return have;
}

// ---------------------------------------------------------------- tape-aware shrinker (lazy candidate sequence)

RunCtx g_decode_ctx;

Tape canonicalise(const Tape &t) {
    Tape canon;
    RunCtx c = g_decode_ctx;
    c.execute = false;
    c.want_desc = false;
    try {
        ENGINE.run(c, t, canon);
    } catch (...) {
        return t;
    }
    return canon;
}

class Candidates {
    Tape base;
    int phase = 0;
    size_t a = 0, b = 0; // phase-specific cursors
    std::vector<size_t> sizes;

public:
    Candidates() = default;
    explicit Candidates(Tape t) : base(std::move(t)) {
        while (!base.empty() && base.back() == 0) base.pop_back();
        for (size_t s = base.size() / 2; s >= 1; s /= 2) {
            sizes.push_back(s);
            if (s == 1) break;
        }
    }

    rc::Maybe<Tape> operator()() {
        const size_t n = base.size();
        while (true) {
            if (n == 0) return rc::Nothing;
            if (phase == 0) { // truncate tail (rest reads as zero)
                if (a < sizes.size()) {
                    Tape t(base.begin(), base.begin() + (n - sizes[a]));
                    ++a;
                    return t;
                }
                phase = 1, a = 0, b = 0;
            } else if (phase == 1) { // delete chunk of size sizes[a] at b
                if (a < sizes.size()) {
                    size_t s = sizes[a];
                    if (b + s <= n) {
                        Tape t;
                        t.reserve(n - s);
                        t.insert(t.end(), base.begin(), base.begin() + b);
                        t.insert(t.end(), base.begin() + b + s, base.end());
                        b += std::max<size_t>(1, s / 2);
                        if (b + s > n && b < n && false) {}
                        return t;
                    }
                    ++a, b = 0;
                    continue;
                }
                phase = 2, a = 0, b = 0;
            } else if (phase == 2) { // zero chunk
                static const size_t zs[] = {16, 4, 1};
                if (a < 3) {
                    size_t s = zs[a];
                    while (b < n) {
                        size_t e = std::min(n, b + s);
                        bool nz = false;
                        for (size_t i = b; i < e; ++i) nz |= base[i] != 0;
                        size_t start = b;
                        b = e;
                        if (nz) {
                            Tape t = base;
                            for (size_t i = start; i < e; ++i) t[i] = 0;
                            return t;
                        }
                    }
                    ++a, b = 0;
                    continue;
                }
                phase = 3, a = 0, b = 0;
            } else if (phase == 3) { // shrink single values: v/2, v-1
                while (a < n) {
                    uint64_t v = base[a];
                    if (v == 0) {
                        ++a, b = 0;
                        continue;
                    }
                    if (b == 0) {
                        b = 1;
                        if (v / 2 != 0 || true) {
                            Tape t = base;
                            t[a] = v / 2;
                            if (v / 2 != v) return t;
                        }
                    }
                    if (b == 1) {
                        b = 2;
                        if (v > 2) {
                            Tape t = base;
                            t[a] = v - 1;
                            return t;
                        }
                    }
                    ++a, b = 0;
                }
                phase = 4;
            } else
                return rc::Nothing;
        }
    }
};

rc::Seq<Tape> shrink_tape(const Tape &t) { return rc::makeSeq<Candidates>(canonicalise(t)); }

rc::Gen<Tape> tape_gen(size_t len) {
    return rc::Gen<Tape>([len](const rc::Random &random, int size) {
        rc::Random r = random;
        Tape t(len);
        for (auto &x: t) x = r.next();
        t[0] = (uint64_t) std::max(0, size); // word 0 is the size hint of the case
        return rc::shrinkable::shrinkRecur(std::move(t), &shrink_tape);
    });
}

// ---------------------------------------------------------------- in-flight file (crash forensics)

int g_inflight_fd = -1;

void write_inflight(const Args &a, const Tape &t) {
    if (g_inflight_fd < 0) return;
    std::string s = std::string("engine=") + ENGINE.name + "\nprop=" + a.prop + "\nmode=" + a.mode + "\ntape=" +
                    tape_to_string(t) + "\n";
    if (ftruncate(g_inflight_fd, 0) != 0) {}
    if (pwrite(g_inflight_fd, s.data(), s.size(), 0) < 0) {}
}

void merge_result(Stats &st, const CaseResult &r, const Tape &canon, const std::string &prop) {
    ++st.evaluations;
    if (r.discard) ++st.discards;
    for (auto l: r.labels) ++st.labels[l];
    for (auto &p: r.sums) st.sums[p.first] += p.second;
    for (auto &p: r.maxs) {
        auto it = st.maxs.find(p.first);
        if (it == st.maxs.end()) st.maxs[p.first] = p.second;
        else it->second = std::max(it->second, p.second);
    }
    if (r.nontrivial && !r.discard) {
        ++st.nontrivial;
        st.nt_hashes.insert(hash_tape(canon, std::hash<std::string>()(prop)));
    }
}

void write_stats(const Args &a, const Stats &st, bool failed, const std::string &replay_path, const std::string &msg,
                 const std::string &hashes_path) {
    std::ofstream f(a.out);
    f << "{\n";
    f << "\"engine\":\"" << ENGINE.name << "\",\"prop\":\"" << a.prop << "\",\"mode\":\"" << a.mode << "\",";
    f << "\"seed\":" << a.seed << ",\"cases_requested\":" << a.cases << ",\n";
    f << "\"evaluations\":" << st.evaluations << ",\"discards\":" << st.discards << ",\"nontrivial\":" << st.nontrivial
      << ",\"distinct_nontrivial\":" << st.nt_hashes.size() << ",\"shrink_execs\":" << st.shrink_execs << ",\n";
    f << "\"hashes_file\":\"" << json_escape(hashes_path) << "\",\n";
    f << "\"rule\":\"" << json_escape(ENGINE.rule(a.prop)) << "\",\n";
    auto dump_map_u = [&](const char *name, const std::map<std::string, uint64_t> &m) {
        f << "\"" << name << "\":{";
        bool first = true;
        for (auto &p: m) {
            f << (first ? "" : ",") << "\"" << json_escape(p.first) << "\":" << p.second;
            first = false;
        }
        f << "},\n";
    };
    dump_map_u("labels", st.labels);
    dump_map_u("sums", st.sums);
    f << "\"maxs\":{";
    {
        bool first = true;
        for (auto &p: st.maxs) {
            char b[64];
            snprintf(b, sizeof b, "%.9g", p.second);
            f << (first ? "" : ",") << "\"" << json_escape(p.first) << "\":" << b;
            first = false;
        }
    }
    f << "},\n\"samples\":[";
    for (size_t i = 0; i < st.samples.size(); ++i) f << (i ? "," : "") << "\"" << json_escape(st.samples[i]) << "\"";
    f << "],\n";
    f << "\"failed\":" << (failed ? "true" : "false") << ",\"replay\":\"" << json_escape(replay_path) << "\",\"msg\":\""
      << json_escape(msg) << "\"\n}\n";
}

int run_replay(const Args &a) {
    std::string prop = a.prop, mode = a.mode;
    Tape t;
    RunCtx ctx;
    std::vector<Tape> warmups;
    if (!read_replay(a.replay, prop, mode, t, &ctx.xdata, &warmups)) {
        fprintf(stderr, "cannot read replay file %s\n", a.replay.c_str());
        return 2;
    }
    if (!a.prop.empty()) prop = a.prop; // allow running a case against another property of the same engine
    ctx.prop = prop;
    ctx.mode = a.mode == "sem" ? mode : a.mode;
    ctx.want_desc = true;
    ctx.workdir = a.workdir;
    Tape canon;
    replay_xquery() = ctx.x("xquery");
    if (!warmups.empty()) {
        RunCtx w = ctx;
        w.xdata.clear();
        w.want_desc = false;
        for (const Tape &wt: warmups) {
            Tape wc;
            try {
                (void) ENGINE.run(w, wt, wc);
            } catch (...) {}
        }
        printf("(%zu earlier case(s) of the history executed first)\n", warmups.size());
    }
    CaseResult r = ENGINE.run(ctx, t, canon);
    mem_mode_filter(ctx, r);
    printf("%s", r.desc.c_str());
    if (!r.desc.empty() && r.desc.back() != '\n') printf("\n");
    if (r.ok) {
        printf("REPLAY-RESULT pass%s\n", r.discard ? " (discarded: outside domain)" : "");
        return 0;
    }
    printf("REPLAY-RESULT FAIL %s\n", r.msg.c_str());
    return 1;
}

// Run one tape in a forked child; returns 0 pass, 1 oracle failure, 3 crash (signal / sanitizer abort).
int run_forked(const RunCtx &ctx, const Tape &t) {
    fflush(stdout);
    fflush(stderr);
    pid_t pid = fork();
    if (pid == 0) {
        int devnull = open("/dev/null", O_WRONLY);
        if (devnull >= 0) {
            dup2(devnull, 2);
            dup2(devnull, 1);
        }
        alarm(120);
        Tape canon;
        int code = 0;
        try {
            CaseResult r = ENGINE.run(ctx, t, canon);
            mem_mode_filter(ctx, r);
            code = r.ok ? 0 : 1;
        } catch (const HarnessBug &) {
            code = 2;
        } catch (...) {
            code = 1;
        }
        _exit(code);
    }
    int status = 0;
    waitpid(pid, &status, 0);
    if (WIFEXITED(status)) {
        int c = WEXITSTATUS(status);
        if (c == 0 || c == 1 || c == 2) return c;
        return 3;
    }
    return 3;
}

int run_minimize(const Args &a) {
    std::string prop = a.prop, mode = a.mode;
    Tape t;
    if (!read_replay(a.minimize, prop, mode, t)) return 2;
    if (!a.prop.empty()) prop = a.prop;
    RunCtx ctx;
    ctx.prop = prop;
    ctx.mode = a.mode == "sem" ? mode : a.mode;
    ctx.workdir = a.workdir;
    g_decode_ctx = ctx;
    int base = run_forked(ctx, t);
    if (base == 0 || base == 2) {
        printf("MINIMIZE: input does not fail (status %d)\n", base);
        return base == 0 ? 0 : 2;
    }
    long budget = a.shrink_budget;
    const time_t t_end = time(nullptr) + a.max_seconds;
    Tape cur = canonicalise(t);
    if (run_forked(ctx, cur) != base) cur = t;
    bool progress = true;
    while (progress && budget > 0) {
        progress = false;
        Candidates c(cur);
        while (budget > 0) {
            if (time(nullptr) > t_end) {
                budget = 0;
                break;
            }
            auto m = c();
            if (!m) break;
            --budget;
            if (run_forked(ctx, *m) == base) {
                cur = canonicalise(*m);
                if (run_forked(ctx, cur) != base) cur = *m;
                progress = true;
                break;
            }
        }
    }
    Args b = a;
    b.prop = prop;
    b.mode = ctx.mode;
    RunCtx dctx = ctx;
    dctx.execute = false;
    dctx.want_desc = true;
    Tape canon;
    std::string desc;
    std::vector<std::pair<std::string, std::string>> xd;
    try {
        CaseResult dr = ENGINE.run(dctx, cur, canon);
        desc = dr.desc;
        xd = dr.xdata;
    } catch (...) {}
    write_replay(a.out, b, cur, base == 3 ? "crash (signal or sanitizer abort) while executing the case" : "oracle failure", desc, xd);
    printf("MINIMIZE: wrote %s (status %d)\n", a.out.c_str(), base);
    return 1;
}

} // namespace

int main(int argc, char **argv) {
    Args a;
    for (int i = 1; i < argc; ++i) {
        std::string k = argv[i];
        auto val = [&]() -> std::string {
            if (i + 1 >= argc) {
                fprintf(stderr, "missing value for %s\n", k.c_str());
                exit(2);
            }
            return argv[++i];
        };
        if (k == "--prop") a.prop = val();
        else if (k == "--mode") a.mode = val();
        else if (k == "--out") a.out = val();
        else if (k == "--replay") a.replay = val();
        else if (k == "--minimize") a.minimize = val();
        else if (k == "--workdir") a.workdir = val();
        else if (k == "--inflight") a.inflight = val();
        else if (k == "--dump-corpus") a.corpus = val();
        else if (k == "--bytes") a.bytes = val();
        else if (k == "--history") a.history = val(); // append the canonical tape of every case executed before the first failure
        else if (k == "--seed") a.seed = strtoull(val().c_str(), nullptr, 10);
        else if (k == "--cases") a.cases = atol(val().c_str());
        else if (k == "--maxsize") a.maxsize = atoi(val().c_str());
        else if (k == "--shrink-budget") a.shrink_budget = atol(val().c_str());
        else if (k == "--max-seconds") a.max_seconds = atol(val().c_str());
        else {
            fprintf(stderr, "unknown argument %s\n", k.c_str());
            return 2;
        }
    }

    try {
        if (!a.bytes.empty()) { // libFuzzer artifact (8 bytes per tape word) -> replay file
            std::ifstream f(a.bytes, std::ios::binary);
            std::string raw((std::istreambuf_iterator<char>(f)), std::istreambuf_iterator<char>());
            Tape t(raw.size() / 8);
            for (size_t i = 0; i < t.size(); ++i) memcpy(&t[i], raw.data() + 8 * i, 8);
            if (!t.empty()) t[0] %= 101;
            write_replay(a.out, a, t, "converted from a libFuzzer artifact", "");
            return 0;
        }
        if (!a.replay.empty()) return run_replay(a);
        if (!a.minimize.empty()) return run_minimize(a);
        if (a.prop.empty() || a.out.empty()) {
            fprintf(stderr, "--prop and --out are required\n");
            return 2;
        }
        if (a.seed == 0) a.seed = 1;

        if (!a.inflight.empty()) g_inflight_fd = open(a.inflight.c_str(), O_CREAT | O_WRONLY | O_TRUNC, 0644);

        RunCtx ctx;
        ctx.prop = a.prop;
        ctx.mode = a.mode;
        ctx.workdir = a.workdir;
        g_decode_ctx = ctx;

        char params[256];
        snprintf(params, sizeof params, "seed=%" PRIu64 " max_success=%ld max_size=%d noshrink=0 verbose_progress=0",
                 a.seed, a.cases, a.maxsize);
        setenv("RC_PARAMS", params, 1);

        Stats st;
        bool failing_seen = false;
        long shrink_left = a.shrink_budget;
        Tape last_fail_canon;
        std::string last_fail_msg, last_fail_desc;
        std::vector<std::pair<std::string, std::string>> last_fail_x;
        bool harness_bug = false;
        std::string harness_msg;
        const size_t want_samples = 4;
        size_t corpus_written = 0;

        bool ok = rc::check(a.prop + " (" + ENGINE.name + ")", [&]() {
            Tape t = *tape_gen(ENGINE.tape_len);
            if (harness_bug) return;
            if (failing_seen) {
                if (shrink_left <= 0) return; // budget exhausted: accept the current minimum
                --shrink_left;
                ++st.shrink_execs;
            }
            write_inflight(a, t);
            Tape canon;
            RunCtx c = ctx;
            c.want_desc = failing_seen || st.samples.size() < want_samples;
            CaseResult r;
            try {
                r = ENGINE.run(c, t, canon);
                mem_mode_filter(c, r);
            } catch (const HarnessBug &e) {
                harness_bug = true;
                harness_msg = e.what();
                last_fail_canon = t;
                return;
            }
            if (!failing_seen && !a.corpus.empty() && r.ok && r.nontrivial && corpus_written < 300) {
                char nm[64];
                snprintf(nm, sizeof nm, "/seed-%05zu", corpus_written++);
                std::ofstream cf(a.corpus + nm, std::ios::binary);
                cf.write((const char *) canon.data(), canon.size() * sizeof(uint64_t));
            }
            if (!failing_seen && !a.history.empty() && r.ok) {
                std::ofstream hf(a.history, std::ios::app);
                hf << tape_to_string(canon) << "\n";
            }
            if (!failing_seen) {
                merge_result(st, r, canon, a.prop);
                if (r.ok && !r.discard && r.nontrivial && st.samples.size() < want_samples) {
                    std::string d = r.desc;
                    if (d.size() > 1500) d = d.substr(0, 1500) + " ...";
                    st.samples.push_back(d);
                }
            }
            if (!r.ok) {
                if (!failing_seen && !c.want_desc) { // describe the first failure too
                    RunCtx d = c;
                    d.want_desc = true;
                    d.execute = false;
                    Tape cc;
                    try {
                        CaseResult dr = ENGINE.run(d, t, cc);
                        r.desc = dr.desc;
                        r.xdata = dr.xdata;
                    } catch (...) {}
                }
                failing_seen = true;
                last_fail_x = r.xdata;
                last_fail_canon = canon;
                last_fail_msg = r.msg;
                last_fail_desc = r.desc;
                RC_FAIL(r.msg);
            }
        });

        // hashes for cross-shard distinct counting
        std::string hashes_path = a.out + ".hashes";
        {
            std::ofstream hf(hashes_path, std::ios::binary);
            for (uint64_t h: st.nt_hashes) hf.write((const char *) &h, sizeof h);
        }

        if (harness_bug) {
            std::string rp = a.out + ".harnessbug.case";
            write_replay(rp, a, last_fail_canon, "HARNESS BUG: " + harness_msg, "");
            write_stats(a, st, false, rp, "HARNESS BUG: " + harness_msg, hashes_path);
            fprintf(stderr, "HARNESS-BUG %s (tape in %s)\n", harness_msg.c_str(), rp.c_str());
            return 2;
        }

        if (!ok && failing_seen) {
            std::string rp = a.out + ".fail.case";
            write_replay(rp, a, last_fail_canon, last_fail_msg, last_fail_desc, last_fail_x);
            write_stats(a, st, true, rp, last_fail_msg, hashes_path);
            printf("FAILING-CASE %s\n", rp.c_str());
            return 1;
        }
        if (!ok) {
            // rapidcheck gave up or failed for a reason that is not an oracle failure
            write_stats(a, st, false, "", "rapidcheck reported failure without a failing case", hashes_path);
            fprintf(stderr, "HARNESS-BUG rapidcheck failed without failing case\n");
            return 2;
        }
        write_stats(a, st, false, "", "", hashes_path);
        return 0;
    } catch (const HarnessBug &e) {
        fprintf(stderr, "HARNESS-BUG %s\n", e.what());
        return 2;
    }
}
