// Constructive generator of sorted key arrays ("recipes") and of the query sets derived from them.
// All key arithmetic is done in __int128 (integers) / on an integer lattice (floating keys) and converted
// to the key type only after the domain test; the reserved value (numeric max / +inf) is never produced.
#pragma once
#include "engine.hpp"
#include "tape.hpp"
#include <algorithm>
#include <cmath>
#include <exception>
#include <cstdint>
#include <limits>
#include <sstream>
#include <string>
#include <type_traits>
#include <vector>

#ifdef _OPENMP
#include <omp.h>
#endif

namespace vf {

/// Number of OpenMP threads of the next construction (no-op in builds without OpenMP: TSan and libFuzzer variants).
inline void vf_set_threads(int t) {
#ifdef _OPENMP
    omp_set_num_threads(t);
#else
    (void) t;
#endif
}

/// Runs f either directly or from inside an active OpenMP parallel region (thread 0 of a team of two). In the second case the
/// library's own parallel loop gets a team of one thread although omp_get_max_threads() still reports the requested count:
/// an index built from within a caller's parallel region must be the same index. Exceptions are carried out of the region.
template<typename F>
void run_maybe_nested(bool nested, F &&f) {
#ifdef _OPENMP
    if (nested) {
        std::exception_ptr ep;
#pragma omp parallel num_threads(2)
        {
            if (omp_get_thread_num() == 0) {
                try {
                    f();
                } catch (...) {
                    ep = std::current_exception();
                }
            }
        }
        if (ep) std::rethrow_exception(ep);
        return;
    }
#endif
    (void) nested;
    f();
}

using i128 = __int128;

inline std::string i128_str(i128 v) {
    if (v == 0) return "0";
    bool neg = v < 0;
    unsigned __int128 u = neg ? (unsigned __int128) (-(v + 1)) + 1 : (unsigned __int128) v;
    std::string s;
    while (u) {
        s += char('0' + int(u % 10));
        u /= 10;
    }
    if (neg) s += '-';
    std::reverse(s.begin(), s.end());
    return s;
}

template<typename K>
std::string key_str(K k) {
    if constexpr (std::is_floating_point_v<K>) {
        char b[64];
        snprintf(b, sizeof b, "%.17g", (double) k);
        return b;
    } else
        return i128_str((i128) k);
}

template<typename K> const char *type_name();
#define VF_TN(T, N) template<> inline const char *type_name<T>() { return N; }
VF_TN(uint8_t, "uint8_t") VF_TN(int8_t, "int8_t") VF_TN(uint16_t, "uint16_t") VF_TN(int16_t, "int16_t")
VF_TN(uint32_t, "uint32_t") VF_TN(int32_t, "int32_t") VF_TN(uint64_t, "uint64_t") VF_TN(int64_t, "int64_t")
VF_TN(float, "float") VF_TN(double, "double") VF_TN(long long, "long long") VF_TN(unsigned long long, "unsigned long long")
#undef VF_TN

/// Lattice on which keys of type K are generated: integers for integral K; m * 2^e for floating K.
template<typename K>
struct Lattice {
    i128 lo, hi; ///< inclusive bounds of lattice coordinates
    int exp2 = 0; ///< scale exponent (floating only)
    unsigned width_bits; ///< log2 of the lattice extent (for log-uniform strides)

    static Lattice make(TapeReader &t) {
        Lattice l;
        if constexpr (std::is_floating_point_v<K>) {
            // |m| < 2^P stays exactly representable; e in [-40, 40] keeps guard points (nextafter) and slopes
            // inside the range of both slope types (DESIGN.md section 3, domain restrictions for floating keys).
            constexpr int P = std::is_same_v<K, float> ? 23 : 50;
            l.lo = -((i128) 1 << P);
            l.hi = ((i128) 1 << P);
            l.exp2 = int(t.below(81)) - 40;
            if (l.exp2 == -40) l.exp2 = 0; // the zero word gives plain integers
            l.width_bits = P + 1;
        } else {
            l.lo = (i128) std::numeric_limits<K>::lowest();
            l.hi = (i128) std::numeric_limits<K>::max() - 1; // numeric max is reserved
            l.width_bits = sizeof(K) * 8;
        }
        return l;
    }

    K to_key(i128 m) const {
        if (m < lo || m > hi) throw HarnessBug("lattice coordinate out of range");
        if constexpr (std::is_floating_point_v<K>) return std::ldexp((K) (int64_t) m, exp2);
        else return (K) m;
    }
};

struct KeyMeta {
    size_t n = 0;
    int threads = 1;
    int procs = 64;                  ///< value reported by omp_get_num_procs() during this case
    size_t chunks = 1;
    std::vector<size_t> seams;       ///< start positions of chunks 1..c-1 (build is chunked iff chunks > 1)
    std::vector<size_t> block_starts;
    bool has_dup = false;
    int fp_exp2 = 0;                 ///< floating keys: the lattice scale 2^fp_exp2 of this case
    bool seam_surgery = false;
    bool top_reached = false;        ///< contains the largest admissible key (max-1)
    bool starts_lowest = false;
    bool pow2_edge = false;
    bool excluded_known = false;     ///< a shape listed in KNOWN_FINDINGS.txt was removed from this case
    const char *size_class = "";
    uint64_t query_seed = 0;
    std::string recipe;              ///< textual recipe
};

/// What the harness' definition of omp_get_num_procs() returns (it pre-empts libgomp's): 64 most of the time, so that 17..20 threads
/// give 17..20 chunks on a 16-core box, and occasionally fewer processors than threads (the library must take the minimum of both).
inline int g_fake_procs = 64;

/// Number of construction chunks make_segmentation_par will use.
inline size_t chunk_count(size_t n, int threads) {
    int par = std::min(std::min(g_fake_procs, threads), 20);
    if (par == 1 || n < (size_t(1) << 15)) return 1;
    return (size_t) par;
}

struct GenOpts {
    size_t eps = 4;          ///< epsilon of the configuration (dup-run lengths are chosen relative to it)
    unsigned size_hint = 50; ///< 0..100 from word 0 of the tape
    size_t max_n = 200000;
    bool allow_threads = true;
    bool dup_heavy = false;  ///< C11: more and longer duplicate runs
    bool unsigned_only = false;
    bool smooth_curves = false;    ///< segmentation engines: 1 array in 12 (size hint >= 60) is a smooth convex / concave curve x_i = A*i + C*i^p tuned to stay
                                   ///< within a fraction of epsilon of a line: the builder's convex hulls then keep (almost) every point
    bool hull_stress = false;      ///< segmentation engines: 1 array in 40 (size hint >= 60): 66000..136000 keys in strictly convex / concave position inside ONE
                                   ///< epsilon band and (mostly) one chunk, so that a hull of the builder reaches the 2^16 entries its vector was created with
    bool hull_stress_often = false; ///< C17 (few cases per run): 1 large array in 4 instead of 1 in 40
    bool pow2_sizes = false;       ///< 1 array in 30 has exactly 2^k - 1, 2^k or 2^k + 1 keys, k = 10..19 (block-wise copy / chunk arithmetic edges)
    bool mixed_runs = false;       ///< Compressed: about 1 case in 250: >= 10^5 three-key segments followed by thousands of long linear runs (one long
                                   ///< segment each): the intercepts' bitvector gets sparse stretches after a dense prefix (select long superblocks)
    bool force_bimodal = false;    ///< C19: the bimodal class unconditionally (a large destination object)
    bool ef_bimodal = false;       ///< Elias-Fano: about 1 case in 250: >= 10^5 minimal segments packed into a tiny part of a huge key space (select long-superblock path)
    bool exact_segments = false;   ///< sdsl-backed variants: about 1 case in 10 (size hint >= 40): G groups of 2*eps+2.. consecutive keys separated by jumps no
                                   ///< segment can bridge, so the index has exactly G bottom segments; G sits on the block boundaries of the succinct
                                   ///< structures (multiples of 64 and 4096, powers of two, +-3)
    bool far_tail = false;         ///< floating keys (PGMIndex checks): 1 array in 8 has its tail (from a positive key on) multiplied by 2^20..2^90: keys
                                   ///< whose distance from the preceding ones is astronomically larger than the local spacing (offsets beyond 2^63)
    bool ef_bimodal_often = false; ///< C17 (few cases per run): the bimodal class for 1 large case in 2 instead of 1 in 6
    bool allow_giant = false;      ///< about 1 case in 400: n around / above 2^24 built from <= 300 distinct keys with huge duplicate runs (ranks > 2^24)
    size_t span_multiple_edge = 0; ///< Bucketing: 1/4 of the arrays end so that (last - first) is m*M + d, d in {-1,0,+1}, M = this value
    bool pow2_span_edge = false; ///< Elias-Fano: 1/4 of the arrays end so that (last segment key - first key) is 2^k-3 .. 2^k (universe-size edge)
    const std::string *xkeys = nullptr;    ///< explicit keys from a replay file (run-length text), overrides the recipe
    const std::string *xthreads = nullptr; ///< explicit thread count from a replay file
    const std::string *xprocs = nullptr;   ///< explicit processor count from a replay file
};

template<typename K>
std::string keys_to_text(const std::vector<K> &keys, size_t max_runs = 40000) {
    std::string s;
    size_t runs = 0;
    for (size_t i = 0; i < keys.size();) {
        size_t j = i;
        while (j < keys.size() && keys[j] == keys[i]) ++j;
        if (++runs > max_runs) return "";
        if (!s.empty()) s += ' ';
        s += key_str(keys[i]);
        if (j - i > 1) s += "x" + std::to_string(j - i);
        i = j;
    }
    return s;
}

template<typename K>
std::vector<K> keys_from_text(const std::string &txt) {
    std::vector<K> keys;
    const char *p = txt.c_str();
    while (*p) {
        while (*p == ' ') ++p;
        if (!*p) break;
        char *e;
        K v;
        if constexpr (std::is_floating_point_v<K>) v = (K) strtod(p, &e);
        else if constexpr (std::is_signed_v<K>) v = (K) strtoll(p, &e, 10);
        else v = (K) strtoull(p, &e, 10);
        if (e == p) throw HarnessBug("bad explicit key text");
        size_t cnt = 1;
        if (*e == 'x') cnt = strtoull(e + 1, &e, 10);
        for (size_t i = 0; i < cnt; ++i) keys.push_back(v);
        p = e;
    }
    return keys;
}

template<typename K>
std::vector<K> gen_keys(TapeReader &t, const GenOpts &o, KeyMeta &meta) {
    const Lattice<K> lat = Lattice<K>::make(t);
    std::ostringstream rec;
    const size_t eps = o.eps;
    g_fake_procs = 64; // the special classes below keep the default; the ordinary path draws a value

    // ---- "bimodal" class for Elias-Fano: a cluster of g-key groups separated by wildly varying jumps (=> minimal segments) followed by a
    //      sparse tail that makes the universe - and so the bucket width of the code - astronomically larger than the cluster
    if (!o.xkeys && sizeof(K) == 8 && !std::is_floating_point_v<K> && (o.force_bimodal || (o.ef_bimodal && o.size_hint >= (o.ef_bimodal_often ? 88u : 96u) && t.chance(1, o.ef_bimodal_often ? 2 : 6)))) {
        size_t groups = 60000 + t.below(140000);
        size_t g = eps + 1 + t.below(eps + 1); // eps+1 .. 2*eps+1 consecutive keys per group
        // variant (small epsilon only, half of the cases): the cluster consists of 110 000 .. 310 000 groups of 2*eps+2 keys separated by
        // jumps no segment can bridge (the exact_segments construction), i.e. that many SEGMENTS inside a few hundred Elias-Fano
        // buckets: more ones between 4096 consecutive zeros than log^4 of the vector length, a full long superblock of the select-0 support
        const bool exact_cluster = (2 * eps + 2) * 310000 <= (size_t(1) << 23) && t.chance(1, 2);
        const i128 ec_jmin = (i128) (4 * eps + 4) * (i128) (2 * eps + 2) * 2;
        if (exact_cluster) groups = 110000 + t.below(200000), g = 2 * eps + 2;
        size_t tail = 2000 + t.below(40000);
        unsigned jb = 4 + (unsigned) t.below(12), tb = 30 + (unsigned) t.below(22);
        bool cluster_first = t.chance(1, 3);
        meta.threads = o.allow_threads ? 1 + (int) t.below(20) : 1;
        SplitMix pr(t.bits(64));
        std::vector<K> keys;
        keys.reserve(groups * g + tail + 8);
        i128 cur = lat.lo + (i128) t.below(1000);
        auto sparse = [&](size_t cnt) {
            for (size_t i = 0; i < cnt; ++i) {
                i128 step = ((i128) 1 << tb) + (i128) (pr.next() & ((uint64_t(1) << tb) - 1));
                if (lat.hi - cur < step) break;
                cur += step;
                keys.push_back(lat.to_key(cur));
            }
        };
        keys.push_back(lat.to_key(cur));
        if (!cluster_first) sparse(tail / 2);
        meta.block_starts.push_back(keys.size());
        for (size_t G = 0; G < groups; ++G) {
            i128 jump = exact_cluster ? ec_jmin + (i128) (pr.next() % (uint64_t) ec_jmin) : 2 + (i128) (pr.next() & ((uint64_t(1) << pr.below(jb + 1)) - 1));
            if (lat.hi - cur < jump + (i128) g) break;
            cur += jump;
            for (size_t i = 0; i < g; ++i) keys.push_back(lat.to_key(cur + (i128) i));
            cur += (i128) g - 1;
        }
        meta.block_starts.push_back(keys.size());
        sparse(cluster_first ? tail : tail - tail / 2);
        meta.n = keys.size();
        meta.size_class = "bimodal";
        meta.chunks = chunk_count(meta.n, meta.threads);
        for (size_t i = 1; i < meta.chunks; ++i) meta.seams.push_back(i * (meta.n / meta.chunks));
        meta.query_seed = t.bits(64);
        rec << "class=bimodal" << (exact_cluster ? "(exact cluster)" : "") << " groups=" << groups << "x" << g << " jumps<2^" << jb << " tail=" << tail << " gaps~2^" << tb << " threads=" << meta.threads;
        meta.recipe = rec.str();
        for (size_t i = 1; i < keys.size(); ++i)
            if (keys[i] < keys[i - 1]) throw HarnessBug("bimodal class: unsorted");
        keys.shrink_to_fit();
        return keys;
    }

    // ---- "hull_stress" class: every point is a vertex of one of the builder's two hulls, and one segment holds more than 2^16 of them
    if (o.hull_stress && !o.xkeys && sizeof(K) == 8 && !std::is_floating_point_v<K> && o.size_hint >= 60 && t.chance(1, o.hull_stress_often ? 4 : 40)) {
        const size_t n = 66000 + t.below(70000);
        const unsigned fam = (unsigned) t.below(4); // gap_j = A +- floor(B * f(j)), f = sqrt(j) | j | log2(1+j) | j^2/n
        const bool shrinking = t.chance(1, 2);
        // deviation of the whole curve from its best line, in units of epsilon.  Far below epsilon the feasible slope range stays wide and
        // the builder never drops old hull vertices (the live hull grows to n entries and its vector must reallocate); around epsilon the
        // range narrows, the front of the hull advances and the dead prefix is what gets compacted when the vector is full
        static const double deltas[] = {0.01, 0.03, 0.1, 0.2, 0.4, 0.7, 1.0, 1.5};
        const double delta = deltas[t.below(8)];
        meta.threads = o.allow_threads ? (t.chance(3, 4) ? 1 : 1 + (int) t.below(3)) : 1;
        const long double B = fam == 0 ? 3.0L * std::sqrt((long double) n) * (1 + t.below(3)) : fam == 1 ? (long double) (1 + t.below(3))
                              : fam == 2 ? 1.5L * (long double) n * (1 + t.below(3)) : (long double) (2 + t.below(3));
        std::vector<i128> h(n);
        long double X = 0, Xn = 0;
        for (size_t j = 0; j < n; ++j) {
            long double f = fam == 0 ? std::sqrt((long double) j) : fam == 1 ? (long double) j : fam == 2 ? std::log2(1.0L + (long double) j) : (long double) j * j / (long double) n;
            h[j] = (i128) std::floor(B * f);
            Xn += (long double) h[j];
        }
        long double dmax = 0;
        for (size_t j = 0; j < n; ++j) {
            long double chord = Xn * (long double) j / (long double) n;
            dmax = std::max(dmax, std::fabs(X - chord));
            X += (long double) h[j];
        }
        const i128 A = (i128) (dmax / (2.0L * delta * (long double) std::max<size_t>(eps, 1))) + 1;
        const i128 hmax = *std::max_element(h.begin(), h.end());
        std::vector<K> keys;
        keys.reserve(n);
        i128 v = lat.lo + (i128) t.below(1000);
        for (size_t j = 0; j < n; ++j) {
            if (v > lat.hi) break;
            keys.push_back(lat.to_key(v));
            v += A + (shrinking ? hmax - h[j] : h[j]);
        }
        meta.n = keys.size();
        meta.size_class = "hull_stress";
        meta.chunks = chunk_count(meta.n, meta.threads);
        for (size_t i = 1; i < meta.chunks; ++i) meta.seams.push_back(i * (meta.n / meta.chunks));
        meta.query_seed = t.bits(64);
        static const char *fn[] = {"sqrt(j)", "j", "log2(1+j)", "j^2/n"};
        rec << "class=hull_stress n=" << meta.n << " gaps " << i128_str(A) << (shrinking ? " + max - " : " + ") << "floor(" << (double) B << "*" << fn[fam] << ") (deviation "
            << delta << "*eps) threads=" << meta.threads;
        meta.recipe = rec.str();
        for (size_t i = 1; i < keys.size(); ++i)
            if (keys[i] <= keys[i - 1]) throw HarnessBug("hull_stress class: not strictly increasing");
        keys.shrink_to_fit();
        return keys;
    }

    // ---- "smooth" class: hull-heavy inputs for the segmentation builder
    if (o.smooth_curves && !o.xkeys && sizeof(K) == 8 && !std::is_floating_point_v<K> && o.size_hint >= 60 && t.chance(1, 12)) {
        size_t n = o.size_hint >= 85 ? 60000 + t.below(140000) : 300 + t.below(20000);
        n = std::min(n, o.max_n);
        static const double ps[] = {1.5, 2.0, 0.5, 3.0, 1.2};
        const size_t psel = t.below(7);
        if (psel >= 5) {
            // integer quadratic: gaps g0 +- c*i, i.e. second differences of exactly c >= 1, so EVERY point is a vertex of one of the two
            // convex hulls the builder keeps (their vectors start with room for 2^16 entries); the base gap is sized so that the whole
            // curve deviates from a line by delta*eps ranks (one segment for small delta, a few for larger ones)
            const i128 c = 1 + (i128) t.below(3);
            const bool shrinking = psel == 6;
            const double delta2 = (1 + t.below(30)) / 10.0;
            meta.threads = o.allow_threads ? (t.chance(1, 2) ? 1 + (int) t.below(2) : 1 + (int) t.below(20)) : 1;
            i128 gavg = (i128) ((double) c * (double) n * (double) n / (8.0 * delta2 * (double) std::max<size_t>(eps, 1))) + 1;
            i128 g0 = shrinking ? gavg + c * (i128) n : std::max<i128>(gavg - c * (i128) n / 2, 1);
            std::vector<K> keys;
            keys.reserve(n);
            i128 v = lat.lo + (i128) t.below(1000), g = g0;
            for (size_t i = 0; i < n; ++i) {
                if (v > lat.hi || g < 1) break;
                keys.push_back(lat.to_key(v));
                v += g;
                g += shrinking ? -c : c;
            }
            if (keys.empty()) keys.push_back(lat.to_key(lat.lo));
            meta.n = keys.size();
            meta.size_class = "smooth";
            meta.chunks = chunk_count(meta.n, meta.threads);
            for (size_t i = 1; i < meta.chunks; ++i) meta.seams.push_back(i * (meta.n / meta.chunks));
            meta.query_seed = t.bits(64);
            rec << "class=smooth(integer quadratic) n=" << meta.n << " gaps " << i128_str(g0) << (shrinking ? " - " : " + ") << i128_str(c) << "*i (deviation "
                << delta2 << "*eps) threads=" << meta.threads;
            meta.recipe = rec.str();
            keys.shrink_to_fit();
            return keys;
        }
        double pw = ps[psel];
        double A = std::ldexp(1.0, 4 + (int) t.below(36));              // base gap 2^4 .. 2^39
        double delta = (1 + t.below(40)) / 10.0;                         // total rank deviation = delta * eps (0.1 .. 4 eps: 1..several segments)
        double Cc = delta * (double) std::max<size_t>(eps, 1) * A / std::pow((double) n, pw);
        bool concave = t.chance(1, 2);
        meta.threads = o.allow_threads ? 1 + (int) t.below(20) : 1;
        std::vector<K> keys(n);
        i128 base = lat.lo + (i128) t.below(1000);
        long double prev = -1;
        for (size_t i = 0; i < n; ++i) {
            long double j = concave ? (long double) (n - i) : (long double) i;
            long double x = (long double) A * i + (concave ? -1 : 1) * (long double) Cc * (std::pow(j, (long double) pw) - (concave ? std::pow((long double) n, (long double) pw) : 0));
            x = std::floor(x);
            if (x <= prev) x = prev + 1; // strictly increasing
            prev = x;
            i128 v = base + (i128) x;
            if (v > lat.hi) {
                keys.resize(i);
                break;
            }
            keys[i] = lat.to_key(v);
        }
        if (keys.empty()) keys.push_back(lat.to_key(base));
        meta.n = keys.size();
        meta.size_class = "smooth";
        meta.chunks = chunk_count(meta.n, meta.threads);
        for (size_t i = 1; i < meta.chunks; ++i) meta.seams.push_back(i * (meta.n / meta.chunks));
        meta.query_seed = t.bits(64);
        rec << "class=smooth n=" << meta.n << " x_i=" << A << "*i" << (concave ? "-" : "+") << Cc << "*i^" << pw << " (deviation " << delta << "*eps) threads=" << meta.threads;
        meta.recipe = rec.str();
        keys.shrink_to_fit();
        return keys;
    }

    // ---- "mixed runs" class
    if (o.mixed_runs && !o.xkeys && sizeof(K) >= 4 && !std::is_floating_point_v<K> && o.size_hint >= 96 && t.chance(1, 6)) {
        size_t na = 250000 + t.below(600000), runs = 4200 + t.below(2500), len = 250 + t.below(400), nb = t.below(300000);
        unsigned gb = 4 + (unsigned) t.below(8);
        meta.threads = o.allow_threads ? 1 + (int) t.below(20) : 1;
        SplitMix pr(t.bits(64));
        std::vector<K> keys;
        keys.reserve(na + runs * len + nb + 8);
        i128 cur = lat.lo + (i128) t.below(1000);
        bool full = false;
        auto noisy = [&](size_t cnt) {
            for (size_t i = 0; i < cnt && !full; ++i) {
                i128 step = 1 + (i128) (pr.next() & ((uint64_t(1) << pr.below(gb + 1)) - 1));
                if (lat.hi - cur < step) {
                    full = true;
                    break;
                }
                cur += step;
                keys.push_back(lat.to_key(cur));
            }
        };
        keys.push_back(lat.to_key(cur));
        noisy(na);
        meta.block_starts.push_back(keys.size());
        for (size_t r = 0; r < runs && !full; ++r) {
            i128 stride = 1 + (i128) pr.below(8), jump = 1 + (i128) pr.below(5000);
            if (lat.hi - cur < jump + stride * (i128) len) {
                full = true;
                break;
            }
            cur += jump;
            for (size_t i = 0; i < len; ++i) keys.push_back(lat.to_key(cur + stride * (i128) i));
            cur += stride * (i128) (len - 1);
        }
        meta.block_starts.push_back(keys.size());
        noisy(nb);
        meta.n = keys.size();
        meta.size_class = "mixed_runs";
        meta.chunks = chunk_count(meta.n, meta.threads);
        for (size_t i = 1; i < meta.chunks; ++i) meta.seams.push_back(i * (meta.n / meta.chunks));
        meta.query_seed = t.bits(64);
        rec << "class=mixed_runs noisy=" << na << " runs=" << runs << "x" << len << " noisy=" << nb << " threads=" << meta.threads;
        meta.recipe = rec.str();
        keys.shrink_to_fit();
        return keys;
    }

    // ---- "giant" class: ranks beyond 2^24 (where a float can no longer hold a rank exactly) at the price of a few distinct keys
    if (o.allow_giant && !o.xkeys && sizeof(K) <= 4 && o.size_hint >= 98 && t.chance(1, 8)) {
        size_t n = (size_t(1) << 24) - 64 + t.below(size_t(1) << 22);
        size_t d = 1 + t.below(300);
        meta.threads = o.allow_threads ? 1 + (int) t.below(20) : 1;
        SplitMix pr(t.bits(64));
        unsigned gb = 1 + (unsigned) t.below(std::min(30u, lat.width_bits - 1));
        std::vector<i128> vals;
        i128 cur = t.chance(1, 2) ? lat.lo : lat.lo + (i128) (pr.next() % (uint64_t) std::min<i128>(lat.hi - lat.lo, (i128) 1 << 62));
        for (size_t i = 0; i < d; ++i) {
            vals.push_back(cur);
            i128 step = 1 + (i128) (pr.next() & ((uint64_t(1) << pr.below(gb + 1)) - 1));
            if (lat.hi - cur < step) break;
            cur += step;
        }
        d = vals.size();
        // run lengths: a few huge runs, many short ones
        std::vector<size_t> cnt(d, 1);
        size_t left = n - d;
        for (size_t i = 0; i < d && left > 0; ++i) {
            size_t c = pr.below(4) == 0 ? pr.below(left + 1) : pr.below(std::min<size_t>(left, 4 * eps + 40) + 1);
            cnt[i] += c;
            left -= c;
        }
        cnt[pr.below(d)] += left;
        // no run reaches 2^24 elements: a run and its guard point make a segment spanning the whole run, and C01's quantifier stops where a
        // single segment spans 2^24 positions (float slopes cannot hold such a slope exactly).  What this class is for - positions and
        // intercepts above 2^24 - does not need longer runs.  The surplus is spread over the other keys.
        {
            const size_t cap = (size_t(1) << 24) - 4096;
            size_t surplus = 0;
            for (auto &c: cnt)
                if (c > cap) surplus += c - cap, c = cap, meta.excluded_known = true; // KF-4 (KNOWN_FINDINGS.txt)
            for (size_t i = 0; surplus > 0 && i < d; ++i) {
                size_t room = cap - cnt[i], add = std::min(room, surplus);
                cnt[i] += add;
                surplus -= add;
            }
            n -= surplus; // d == 1: the array simply stays below 2^24
        }
        std::vector<K> keys;
        keys.reserve(n);
        for (size_t i = 0; i < d; ++i) {
            meta.block_starts.push_back(keys.size());
            keys.insert(keys.end(), cnt[i], lat.to_key(vals[i]));
        }
        meta.n = keys.size();
        meta.size_class = "giant";
        meta.has_dup = true;
        meta.chunks = chunk_count(meta.n, meta.threads);
        for (size_t i = 1; i < meta.chunks; ++i) meta.seams.push_back(i * (meta.n / meta.chunks));
        meta.starts_lowest = vals.front() == lat.lo;
        meta.top_reached = vals.back() == lat.hi;
        meta.query_seed = t.bits(64);
        rec << "class=giant n=" << meta.n << " distinct=" << d << " threads=" << meta.threads;
        meta.recipe = rec.str();
        if (keys.size() != n) throw HarnessBug("giant class: wrong size");
        return keys;
    }

    // ---- "exact_segments" class: the number of bottom-level segments is chosen, not observed.  A group of L >= 2*eps+2 consecutive keys
    //      forces a slope >= 1/(2*eps+1); after a jump of more than (L+2*eps)*(2*eps+1) positions no line within eps of the group reaches
    //      the next key, so every group is exactly one segment.
    if (o.exact_segments && !o.xkeys && sizeof(K) >= 4 && !std::is_floating_point_v<K> && o.size_hint >= 40 && t.chance(1, 10)) {
        static const size_t blocks[] = {64, 128, 192, 256, 512, 1024, 2048, 4096, 8192, 12288, 16384, 32768, 65536};
        size_t L = 2 * eps + 2 + t.below(3);
        i128 jmin = (i128) (L + 2 * eps + 2) * (i128) (2 * eps + 2) * 2;
        size_t G = blocks[t.below(13)] + t.below(7) - 3;
        size_t gmax = std::max<size_t>(65, (size_t(1) << 21) / L);
        i128 room = (lat.hi - lat.lo) / (jmin * 3 + (i128) L);
        if ((i128) gmax > room) gmax = (size_t) std::max<i128>(room, 2);
        while (G > gmax) G = G / 2 + t.below(2);
        meta.threads = o.allow_threads ? 1 + (int) t.below(20) : 1;
        SplitMix pr(t.bits(64));
        std::vector<K> keys;
        keys.reserve(G * L);
        i128 cur = t.chance(1, 2) ? lat.lo : lat.lo + (i128) t.below(1000);
        // Elias-Fano geometry steering: place the last group so that the high bit vector of the code over the m segment keys has
        // 2^tt + 2 + d bits, d in -2..2 (sd_vector: low width = round(log2(universe*ln2/m)), buckets = ceil(universe / 2^width),
        // |high| = m + buckets; universe = last stored key - first key + 1).  The block arithmetic of the select supports sits on
        // these sizes.  m is G or G+1 depending on whether the builder appends the (last+1) segment: guessed by a tape bit.
        i128 last_rel = -1;
        if (o.pow2_span_edge && G >= 8 && t.chance(1, 2)) {
            const bool assume_extra = t.chance(1, 2);
            const size_t m = G + (assume_extra ? 1 : 0);
            unsigned tt = 0;
            while ((size_t(1) << (tt + 1)) < 3 * m) ++tt; // largest 2^tt < 3m
            const int d = (int) t.below(5) - 2;
            const size_t T = (size_t(1) << tt) + 2 + d;
            if ((size_t(1) << tt) * 10 >= 21 * m && T > m + 2) {
                const size_t buckets = T - m;
                const i128 smin = (i128) (G - 1) * ((i128) L + 2 * jmin) + jmin;
                unsigned lw = 1;
                while (lw < 60 && ((i128) (buckets - 1) << lw) <= smin) ++lw;
                lw += (unsigned) t.below(3);
                const i128 u = ((i128) (buckets - 1) << lw) + 1 + (i128) (pr.next() % (uint64_t(1) << std::min(lw, 62u)));
                const double ideal = std::log2((double) u * std::log(2.0) / (double) m);
                const i128 rel = u - 1 - (assume_extra ? (i128) L : 0); // first key of the last group, relative to the first key
                if (lw < 62 && (unsigned) std::llround(std::max(ideal, 1.0)) == lw && rel > smin && cur + rel + (i128) L + 1 <= lat.hi) {
                    last_rel = rel;
                    rec << " EFHIGH(2^" << tt << "+2" << (d < 0 ? "" : "+") << d << ",w=" << lw << (assume_extra ? ",extra" : "") << ")";
                }
            }
        }
        const i128 first_v = cur;
        for (size_t g = 0; g < G; ++g) {
            if (g) cur += jmin + (i128) (pr.next() % (uint64_t) std::min<i128>(jmin, (i128) 1 << 40));
            if (g && g + 1 == G && last_rel >= 0 && first_v + last_rel > cur) cur = first_v + last_rel;
            if (lat.hi - cur < (i128) L) break;
            for (size_t i = 0; i < L; ++i) keys.push_back(lat.to_key(cur + (i128) i));
            cur += (i128) L - 1;
        }
        meta.n = keys.size();
        meta.size_class = "exact_segments";
        meta.chunks = chunk_count(meta.n, meta.threads);
        for (size_t i = 1; i < meta.chunks; ++i) meta.seams.push_back(i * (meta.n / meta.chunks));
        meta.starts_lowest = keys.front() == std::numeric_limits<K>::lowest();
        meta.query_seed = t.bits(64);
        rec << "class=exact_segments groups=" << G << "x" << L << " threads=" << meta.threads;
        meta.recipe = rec.str();
        for (size_t i = 1; i < keys.size(); ++i)
            if (keys[i] <= keys[i - 1]) throw HarnessBug("exact_segments class: not strictly increasing");
        keys.shrink_to_fit();
        return keys;
    }

    // ---- size class
    static const unsigned w0[] = {3, 3, 0, 0, 0}, w1[] = {1, 3, 2, 0, 0}, w2[] = {1, 2, 3, 1, 0}, w3[] = {1, 1, 2, 3, 2};
    size_t cls = o.size_hint < 15 ? t.weighted(w0) : o.size_hint < 50 ? t.weighted(w1)
                                                 : o.size_hint < 80   ? t.weighted(w2)
                                                                      : t.weighted(w3);
    size_t target;
    switch (cls) {
        case 0: target = 1 + t.below(8); meta.size_class = "tiny"; break;
        case 1: target = 1 + t.below(300); meta.size_class = "small"; break;
        case 2: target = 301 + t.below(4700); meta.size_class = "medium"; break;
        case 3: target = 32768 - 64 + t.below(129); meta.size_class = "threshold"; break;
        default: target = 32768 + t.below(200000 - 32768 + 1); meta.size_class = "large"; break;
    }
    // "huge" class (only engines that raise max_n): 2^20 .. 2^23 keys, about 1 case in 300: segments spanning up to millions of
    // positions probe the precision of float slopes close to the documented 2^24 limit
    if (o.max_n > 200000 && o.size_hint >= 97 && t.chance(1, 10)) {
        target = (size_t(1) << 20) + t.below(7 * (size_t(1) << 20));
        meta.size_class = "huge";
        cls = 4;
    }
    if (o.pow2_sizes && t.chance(1, 30)) {
        unsigned k = 10 + (unsigned) t.below(10);
        target = (size_t(1) << k) + t.below(3) - 1;
        meta.size_class = "pow2_size";
        cls = 4;
    }
    target = std::min(target, o.max_n);
    meta.threads = o.allow_threads ? 1 + (int) t.below(20) : 1;
    {
        static const int procs_choice[] = {64, 64, 64, 64, 64, 64, 64, 64, 1, 2, 3, 7, 16, 19};
        meta.procs = o.allow_threads ? procs_choice[t.below(14)] : 64;
        if (o.xprocs) meta.procs = atoi(o.xprocs->c_str());
        g_fake_procs = meta.procs;
    }
    rec << "class=" << meta.size_class << " target_n=" << target << " threads=" << meta.threads << " procs=" << meta.procs;
    if constexpr (std::is_floating_point_v<K>) rec << " scale=2^" << lat.exp2;
    meta.fp_exp2 = lat.exp2;

    // ---- start
    i128 cur;
    const i128 span = lat.hi - lat.lo;
    static const unsigned start_w[] = {2, 2, 2, 3, 3, 1};
    switch (t.weighted(start_w)) {
        case 0: cur = lat.lo; meta.starts_lowest = true; rec << " start=lowest"; break;
        case 1: cur = lat.lo + (i128) t.below(17); rec << " start=lowest+k"; break;
        case 2: { // around zero
            i128 z = (i128) t.below(33) - 16;
            cur = std::max(lat.lo, std::min(lat.hi, z));
            rec << " start=around0";
            break;
        }
        case 3: { // random
            unsigned __int128 r = ((unsigned __int128) t.bits(64) << 64) | t.bits(64);
            cur = lat.lo + (i128) (r % ((unsigned __int128) span + 1));
            rec << " start=random";
            break;
        }
        case 4: { // log-uniform above lowest
            i128 d = (i128) t.loguniform(std::min(63u, lat.width_bits - 1));
            cur = lat.lo + std::min(d, span);
            rec << " start=lowest+log";
            break;
        }
        default: cur = lat.hi - (i128) std::min<uint64_t>(t.below(40), (uint64_t) std::min<i128>(span, 1000)); rec << " start=top-k"; break;
    }
    if (cur < lat.lo || cur > lat.hi) throw HarnessBug("start outside lattice");

    // ---- blocks
    std::vector<i128> m;
    m.reserve(target);
    auto dup_len = [&]() -> size_t {
        size_t e = eps;
        switch (t.below(o.dup_heavy ? 15 : 12)) {
            case 14: return 4096 + 2 * e + 8 + t.below(4000); // beyond the gallop distances a per-key memo / cache could be keyed on
            case 0: return 2;
            case 1: return e;
            case 2: return e + 1;
            case 3: return 2 * e;
            case 4: return 2 * e + 1;
            case 5: return 2 * e + 2;
            case 6: return 2 * e + 3;
            case 7: return 4 * e;
            case 8: { unsigned p = 1 + (unsigned) t.below(10); return (size_t(1) << p) - 1; }
            case 9: { unsigned p = 1 + (unsigned) t.below(10); return (size_t(1) << p) + 1; }
            case 10: return 1 + t.below(6);
            case 11: return 8 * e + 100 + t.below(3000);
            case 12: return 2 * e + 2 + t.below(40);
            default: { unsigned p = 1 + (unsigned) t.below(12); return (size_t(1) << p); }
        }
    };
    auto advance = [&](i128 step) -> bool { // false when the top of the domain stops us
        if (step <= 0) throw HarnessBug("non-positive step");
        if (lat.hi - cur < step) return false;
        cur += step;
        return true;
    };
    auto push = [&]() {
        if (m.size() < target) m.push_back(cur);
    };
    auto block = [&](size_t budget) {
        if (budget == 0) return;
        meta.block_starts.push_back(m.size());
        static const unsigned kw[] = {3, 3, 3, 3, 3, 2, 1, 2, 4, 1}, kw_dup[] = {8, 3, 3, 3, 3, 2, 1, 2, 3, 1};
        unsigned kind = (unsigned) (o.dup_heavy ? t.weighted(kw_dup) : t.weighted(kw));
        switch (kind) {
            case 9: { // MULT: keys at small integer multiples of the distance covered so far (x, 2x, 3x, 4x ... measured from the first key):
                      // proportional abscissas make the builder's slopes - ratios of differences - tie exactly although written as
                      // different fractions, at key differences far beyond what a double holds
                size_t c = std::min<size_t>(1 + t.below(6), budget);
                rec << " MULT(";
                if (m.empty()) push();
                for (size_t i = 0; i < c; ++i) {
                    i128 rel = cur - m.front();
                    if (rel <= 0) { // nothing covered yet: open the distance with a log-uniform jump
                        if (!advance(1 + (i128) t.loguniform(std::min(60u, lat.width_bits - 2)))) break;
                        push();
                        rec << "jump ";
                        continue;
                    }
                    unsigned k = 2 + (unsigned) t.below(4);
                    if (!advance(rel * (i128) (k - 1))) break; // front + rel*k
                    push();
                    rec << "x" << k << " ";
                }
                rec << ")";
                break;
            }
            case 8: { // LOGGAP: every gap log-uniform in [1, 2^b] (heavy tailed: forces short segments, many levels)
                unsigned b = 1 + (unsigned) t.below(std::min(62u, lat.width_bits - 1));
                size_t c = std::min<size_t>(1 + t.below(std::max<size_t>(8 * eps + 8, budget)), budget);
                SplitMix pr(t.bits(64));
                rec << " LOGGAP(2^" << b << "," << c << ")";
                for (size_t i = 0; i < c; ++i) {
                    unsigned e = (unsigned) pr.below(b + 1);
                    i128 g = e == 0 ? 1 : ((i128) 1 << (e - 1)) + (i128) (pr.next() & (((uint64_t) 1 << (e - 1)) - 1));
                    if (!m.empty() && !advance(g)) break;
                    push();
                }
                break;
            }
            case 0: { // DUP: repeat the current key
                size_t c = std::min(dup_len(), budget);
                rec << " DUP(" << c << ")";
                if (m.empty()) push(), c = c > 0 ? c - 1 : 0;
                for (size_t i = 0; i < c; ++i) push();
                // leave the run through a generated gap so that "key+1 < next" can be true or false
                break;
            }
            case 1: { // STEP1
                size_t c = std::min<size_t>(1 + t.below(std::max<size_t>(4 * eps + 8, budget)), budget);
                rec << " STEP1(" << c << ")";
                for (size_t i = 0; i < c; ++i) {
                    if (!m.empty() && !advance(1)) break;
                    push();
                }
                break;
            }
            case 2: { // STRIDE(s)
                i128 s = 1 + (i128) t.loguniform(std::min(63u, lat.width_bits - 1));
                size_t c = std::min<size_t>(1 + t.below(std::max<size_t>(4 * eps + 8, budget)), budget);
                rec << " STRIDE(" << i128_str(s) << "," << c << ")";
                for (size_t i = 0; i < c; ++i) {
                    if (!m.empty() && !advance(s)) break;
                    push();
                }
                break;
            }
            case 3: { // RANDGAP(g): gaps uniform in [1, g]
                uint64_t g = 1 + t.loguniform(std::min(62u, lat.width_bits - 1));
                size_t c = std::min<size_t>(1 + t.below(std::max<size_t>(4 * eps + 8, budget)), budget);
                SplitMix pr(t.bits(64));
                rec << " RANDGAP(" << g << "," << c << ")";
                for (size_t i = 0; i < c; ++i) {
                    if (!m.empty() && !advance(1 + (i128) pr.below(g))) break;
                    push();
                }
                break;
            }
            case 4: { // STAIR(group, jump): group consecutive keys then a jump
                static const int gsel[] = {0, 1, 2, -1, 3};
                size_t group = std::max<size_t>(1, size_t(2 * eps + gsel[t.below(5)]));
                if (t.chance(1, 4)) group = 1 + t.below(4 * eps + 4);
                i128 jump = 2 + (i128) t.loguniform(std::min(63u, lat.width_bits - 1));
                size_t c = std::min<size_t>(group * (1 + t.below(12)), budget);
                rec << " STAIR(" << group << "," << i128_str(jump) << "," << c << ")";
                for (size_t i = 0; i < c; ++i) {
                    bool okk = m.empty() ? true : advance(i % group == 0 ? jump : 1);
                    if (!okk) break;
                    push();
                }
                break;
            }
            case 5: { // JUMP_POW2
                unsigned j = (unsigned) t.below(std::min(64u, lat.width_bits));
                i128 step = (i128) 1 << j;
                rec << " JUMP2^" << j;
                if (m.empty()) push();
                if (advance(step)) push();
                break;
            }
            case 6: { // JUMP_TO_TOP(k): land k below the largest admissible key
                i128 k = (i128) t.below(6);
                if (t.chance(1, 3)) k = (i128) t.below(2 * eps + 6);
                i128 dest = lat.hi - k;
                rec << " TOP-" << i128_str(k);
                if (m.empty()) push();
                if (dest > cur) {
                    cur = dest;
                    push();
                }
                break;
            }
            default: { // DENSE-THEN-GAP: eps-relative dense run then a huge gap (steep segment then far gap)
                size_t c = std::min<size_t>(1 + t.below(6 * eps + 6), budget);
                rec << " DENSE(" << c << ")";
                for (size_t i = 0; i < c; ++i) {
                    if (!m.empty() && !advance(1)) break;
                    push();
                }
                unsigned j = (unsigned) t.below(std::min(64u, lat.width_bits));
                if (advance((i128) 1 << j)) rec << "+GAP2^" << j;
                break;
            }
        }
    };

    size_t nblocks = 1 + t.below(cls <= 1 ? 6 : 10);
    for (size_t b = 0; b < nblocks && m.size() < target; ++b) block(target - m.size());
    // filler: top the array up to the class target so that shrinking blocks does not leave the size class
    if (m.size() < target) {
        meta.block_starts.push_back(m.size());
        unsigned fk = (unsigned) t.below(6);
        if (fk >= 4) fk = 4; // LOGGAP filler twice as likely
        size_t need = target - m.size();
        rec << " FILL" << fk << "(" << need << ")";
        i128 stride = 1;
        if (fk == 2) stride = 1 + (i128) t.loguniform(std::min(40u, lat.width_bits - 1));
        SplitMix pr(t.bits(64));
        uint64_t g = 1 + t.loguniform(std::min(30u, lat.width_bits - 1));
        // heavy-tailed gaps sized so that the filler roughly fits the remaining key space
        unsigned lgb = 1;
        {
            i128 room = (lat.hi - cur) / (i128) std::max<size_t>(need, 1);
            while (lgb < 60 && ((i128) 1 << (lgb + 1)) < room) ++lgb;
            lgb = 1 + (unsigned) t.below(lgb);
        }
        for (size_t i = 0; i < need; ++i) {
            if (!m.empty()) {
                i128 step;
                if (fk == 4) {
                    unsigned e = (unsigned) pr.below(lgb + 1);
                    step = e == 0 ? 1 : ((i128) 1 << (e - 1)) + (i128) (pr.next() & (((uint64_t) 1 << (e - 1)) - 1));
                } else
                    step = fk == 0 ? 1 : fk == 1 ? (i128) (pr.below(3)) : fk == 2 ? stride : 1 + (i128) pr.below(g);
                if (step > 0 && !advance(step)) {
                    // top reached: what remains becomes a duplicate run of the top key
                }
            }
            push();
        }
    }
    if (m.empty()) m.push_back(cur);

    // ---- Elias-Fano universe edge: cut the array so that it ends at first + 2^k - 2 + d, d in {-1,0,+1}, after a gap / as a run / one below
    if (o.pow2_span_edge && t.chance(1, 4) && m.size() >= 2) {
        i128 span = m.back() - m.front();
        unsigned kmax = 2;
        while (kmax < lat.width_bits && ((i128) 1 << kmax) <= span + 2) ++kmax;
        unsigned k = 2 + (unsigned) t.below(kmax - 1); // 2 .. kmax
        i128 top = m.front() + ((i128) 1 << k) - 2 + ((i128) t.below(3) - 1);
        unsigned mode = (unsigned) t.below(4);
        size_t pre = eps + 3 + t.below(eps + 4);
        if (top > m.front() + 1 && top <= lat.hi) {
            while (m.size() > 1 && m.back() >= top - (mode == 1 || mode == 3 ? 1 : 0)) m.pop_back();
            if (mode == 0) m.push_back(top);
            else if (mode == 1) m.push_back(top - 1);
            else if (mode == 2) m.push_back(top), m.push_back(top);
            else { // the predecessor value repeated more than epsilon+2 times, then the edge key: a segment starts exactly on the edge
                for (size_t i = 0; i < pre; ++i) m.push_back(top - 1);
                m.push_back(top);
            }
            rec << " POW2EDGE(k=" << k << ",mode=" << mode << ")";
            meta.pow2_edge = true;
        }
    }

    // ---- bucket-width edge: the key span becomes a multiple of M (+-1), so that bucket boundaries coincide with the last key
    if (o.span_multiple_edge && t.chance(1, 4) && m.size() >= 2) {
        const i128 M = (i128) o.span_multiple_edge;
        i128 span = m.back() - m.front();
        uint64_t maxmult = (uint64_t) std::min<i128>(span / M + 1, (i128) 1 << 40);
        i128 top = m.front() + M * (i128) (1 + t.below(maxmult)) + ((i128) t.below(3) - 1);
        bool with_run = t.chance(1, 2);
        size_t pre = eps + 3 + t.below(eps + 4);
        if (top > m.front() + 1 && top <= lat.hi) {
            while (m.size() > 1 && m.back() >= top - (with_run ? 1 : 0)) m.pop_back();
            if (with_run)
                for (size_t i = 0; i < pre; ++i) m.push_back(top - 1);
            m.push_back(top);
            rec << " SPANEDGE(M=" << o.span_multiple_edge << (with_run ? ",run" : "") << ")";
        }
    }

    // ---- chunk geometry and seam surgery
    size_t n = m.size();
    meta.chunks = chunk_count(n, meta.threads);
    if (meta.chunks > 1) {
        size_t cs = n / meta.chunks;
        for (size_t i = 1; i < meta.chunks; ++i) meta.seams.push_back(i * cs);
        if (t.chance(1, 2)) {
            meta.seam_surgery = true;
            size_t k = 1 + t.below(std::min<size_t>(4, meta.seams.size()));
            rec << " SURGERY[";
            for (size_t j = 0; j < k; ++j) {
                size_t si = t.below(meta.seams.size());
                size_t s = meta.seams[si];
                if (t.chance(1, 2)) {
                    // type B: a run that ends d elements BEFORE the seam (possibly reaching back across the previous seam, so that the
                    // chunk consists of the continuation of the run and d more elements), d tail keys at chosen distances, and optionally
                    // the last tail key continuing as a run into the next chunk.  Values are only lowered towards m[from] and capped by
                    // the first untouched element, so the array stays sorted.
                    size_t d = t.below(5);
                    const size_t backs[] = {3, eps + 2, 100, cs, cs + 1 + t.below(cs)};
                    size_t back = backs[t.below(5)];
                    size_t cont = t.below(3) == 0 ? 0 : (t.chance(1, 2) ? 1 + t.below(4) : eps + 2 + t.below(eps + 3));
                    size_t run_end = s - std::min(s, d);                 // first tail position
                    size_t from = run_end >= back ? run_end - back : 0;
                    size_t to = std::min(n, s + cont);                     // first untouched position
                    i128 ceil_v = to < n ? m[to] : lat.hi;
                    for (size_t i = from; i < run_end; ++i) m[i] = m[from];
                    i128 curv = m[from];
                    rec << "B(" << s << ",back=" << back << ",d=" << d;
                    for (size_t i = run_end; i < s; ++i) {
                        unsigned c = (unsigned) t.below(4);
                        i128 step = c == 0 ? 1 : c == 1 ? 2 : c == 2 ? ((i128) 1 << t.below(std::min(40u, lat.width_bits - 1))) : m[i] - curv;
                        if (step < 0) step = 0;
                        curv = std::min(curv + step, ceil_v);
                        m[i] = curv;
                        rec << (c == 0 ? ",+1" : c == 1 ? ",+2" : c == 2 ? ",+far" : ",orig");
                    }
                    for (size_t i = s; i < to; ++i) m[i] = curv;
                    rec << ",cont=" << cont << ")";
                    continue;
                }
                const size_t opts[] = {0, 1, 2, eps + 2, 2 * eps + 3, 100};
                size_t a = opts[t.below(6)], b = opts[t.below(6)];
                size_t from = s >= a ? s - a : 0, to = std::min(n, s + b);
                for (size_t i = from; i < to; ++i) m[i] = m[from];
                rec << "(" << s << ",-" << a << ",+" << b << ")";
            }
            rec << "]";
        }
    }

    // ---- floating keys: a duplicated zero, or zero as last key, would put a guard point at nextafter(0)
    // (a denormal), i.e. a slope that is not representable in the slope type: outside the stated domain.
    if constexpr (std::is_floating_point_v<K>) {
        std::vector<i128> f;
        f.reserve(m.size() + 1);
        size_t run = 0;
        for (size_t i = 0; i < m.size(); ++i) {
            if (m[i] == 0 && !f.empty() && f.back() == 0) continue;
            run = (!f.empty() && f.back() == m[i]) ? run + 1 : 1;
            f.push_back(m[i]);
        }
        if (f.back() == 0) f.push_back(1);
        m.swap(f);
        n = m.size();
        if (chunk_count(n, meta.threads) != meta.chunks) { // keep the recorded geometry truthful
            meta.chunks = chunk_count(n, meta.threads);
            meta.seams.clear();
            if (meta.chunks > 1)
                for (size_t i = 1; i < meta.chunks; ++i) meta.seams.push_back(i * (n / meta.chunks));
        } else if (meta.chunks > 1) {
            meta.seams.clear();
            for (size_t i = 1; i < meta.chunks; ++i) meta.seams.push_back(i * (n / meta.chunks));
        }
    }

    std::vector<K> keys(n);
    for (size_t i = 0; i < n; ++i) keys[i] = lat.to_key(m[i]);
    if constexpr (std::is_floating_point_v<K>) {
        if (o.far_tail && !o.xkeys && n >= 2 && t.chance(1, 8)) {
            size_t i = 1 + t.below(n - 1);
            int k = 20 + (int) t.below(std::is_same_v<K, float> ? 41 : 71);
            while (i < n && (keys[i] <= 0 || keys[i] == keys[i - 1])) ++i;
            // the scaled keys stay below 2^100: gaps beyond about 2^126 positions^-1 make the slope of a sparse segment underflow in a float
            // (DESIGN.md section 3 keeps the slopes of floating keys inside the range of both slope types; an earlier version of this
            // class did not, and raised false alarms for C01 / C02 / C07 with Floating = float)
            if (i < n) {
                int room = 100 - (std::ilogb((double) keys[n - 1]) + 1);
                if (room < 20) i = n;
                else k = std::min(k, room);
            }
            if (i < n) {
                for (size_t j = i; j < n; ++j) keys[j] = std::ldexp(keys[j], k); // exact: a power-of-two factor, far from overflow
                rec << " FARTAIL(from #" << i << ", x2^" << k << ")";
            }
        }
    }

    if (o.xkeys) { // explicit case from a replay file: the recipe above only kept the tape in step
        keys = keys_from_text<K>(*o.xkeys);
        n = keys.size();
        if (o.xthreads) meta.threads = atoi(o.xthreads->c_str());
        if (o.xprocs) meta.procs = atoi(o.xprocs->c_str());
        g_fake_procs = meta.procs;
        meta.chunks = chunk_count(n, meta.threads);
        meta.seams.clear();
        for (size_t i = 1; i < meta.chunks; ++i) meta.seams.push_back(i * (n / meta.chunks));
        meta.block_starts.clear();
        rec << " [explicit keys from replay file]";
        m.assign(1, 0);
    }

    keys.shrink_to_fit(); // capacity == size: a read one past the caller's array is visible to AddressSanitizer (C17)

    // ---- generator post-conditions (a breach is a harness bug, never a violation)
    for (size_t i = 0; i < n; ++i) {
        if constexpr (std::is_floating_point_v<K>) {
            if (!std::isfinite(keys[i])) throw HarnessBug("non-finite key generated");
        } else {
            if (keys[i] == std::numeric_limits<K>::max()) throw HarnessBug("reserved key generated");
        }
        if (i && keys[i] < keys[i - 1]) throw HarnessBug("unsorted keys generated");
        if (i && keys[i] == keys[i - 1]) meta.has_dup = true;
    }
    if (n == 0) throw HarnessBug("empty key array generated");
    meta.n = n;
    meta.top_reached = !o.xkeys && m.back() == lat.hi;
    meta.query_seed = t.bits(64);
    meta.recipe = rec.str();
    return keys;
}

// ------------------------------------------------------------------------------------------------ queries

template<typename K>
struct KeyDomain {
    static constexpr bool is_fp = std::is_floating_point_v<K>;
    /// is v a valid (non-reserved) query of type K?  v is given as long double for fp, i128 for ints.
    static bool valid_int(i128 v) {
        return v >= (i128) std::numeric_limits<K>::lowest() && v < (i128) std::numeric_limits<K>::max();
    }
};

/// Query set derived from the data (DESIGN.md section 3). Never contains the reserved value.
template<typename K>
std::vector<K> gen_queries(const std::vector<K> &keys, const KeyMeta &meta, size_t eps, bool present_only,
                           bool whole_universe_ok) {
    std::vector<K> q;
    const size_t n = keys.size();
    SplitMix pr(meta.query_seed);

    auto add_int = [&](i128 v) {
        if constexpr (!std::is_floating_point_v<K>) {
            if (KeyDomain<K>::valid_int(v)) q.push_back((K) v);
        }
    };
    auto add_fp = [&](long double v) {
        if constexpr (std::is_floating_point_v<K>) {
            if (std::isnan(v)) return;
            K k = (K) v;
            if (std::isfinite(k)) q.push_back(k);
        }
    };

    if constexpr (!std::is_floating_point_v<K>) {
        if (!present_only && whole_universe_ok && sizeof(K) <= 2 && (sizeof(K) == 1 || pr.below(4) == 0)) {
            for (i128 v = (i128) std::numeric_limits<K>::lowest(); v < (i128) std::numeric_limits<K>::max(); ++v)
                q.push_back((K) v);
            return q;
        }
    }

    // a replay file names the query its case failed on (the sampled queries of a large array depend on the query seed, which an explicit
    // key list does not reproduce)
    if (const std::string *xq = replay_xquery()) {
        if constexpr (std::is_floating_point_v<K>) add_fp(strtold(xq->c_str(), nullptr));
        else if constexpr (std::is_signed_v<K>) add_int((i128) strtoll(xq->c_str(), nullptr, 10));
        else add_int((i128) strtoull(xq->c_str(), nullptr, 10));
    }
    std::vector<size_t> idx;
    if (n <= 4096) {
        idx.resize(n);
        for (size_t i = 0; i < n; ++i) idx[i] = i;
    } else {
        for (size_t i = 0; i < 2000; ++i) idx.push_back(pr.below(n));
        auto around = [&](size_t s) {
            size_t w = 2 * eps + 4;
            w = std::min<size_t>(w, 80);
            size_t from = s > w ? s - w : 0, to = std::min(n, s + w + 1);
            for (size_t i = from; i < to; ++i) idx.push_back(i);
        };
        for (size_t s: meta.seams) around(s);
        for (size_t s: meta.block_starts) around(s);
        around(0);
        around(n - 1);
    }

    q.reserve(idx.size() * (present_only ? 1 : 4) + 64);
    for (size_t i: idx) {
        K k = keys[i];
        q.push_back(k);
        if (present_only) continue;
        if constexpr (std::is_floating_point_v<K>) {
            add_fp(std::nextafter(k, std::numeric_limits<K>::infinity()));
            add_fp(std::nextafter(k, -std::numeric_limits<K>::infinity()));
            if (i + 1 < n && keys[i + 1] != k) add_fp(((long double) k + (long double) keys[i + 1]) / 2);
        } else {
            add_int((i128) k + 1);
            add_int((i128) k - 1);
            if (i + 1 < n && keys[i + 1] != k) add_int(((i128) k + (i128) keys[i + 1]) / 2);
        }
    }
    if (present_only) return q;

    // global probes
    if constexpr (std::is_floating_point_v<K>) {
        const K lo = std::numeric_limits<K>::lowest(), hi = std::numeric_limits<K>::max();
        add_fp(lo), add_fp(std::nextafter(lo, (K) 0)), add_fp(hi), add_fp(std::nextafter(hi, (K) 0));
        add_fp(0), add_fp(std::numeric_limits<K>::denorm_min()), add_fp(-std::numeric_limits<K>::denorm_min());
        add_fp(std::numeric_limits<K>::min());
        for (int e = -60; e <= 120; e += 7) {
            add_fp(std::ldexp((long double) 1, e));
            add_fp(-std::ldexp((long double) 1, e));
        }
        for (int i = 0; i < 24; ++i) {
            int e = int(pr.below(200)) - 70;
            long double v = std::ldexp((long double) (pr.next() >> 11) / 9007199254740992.0L + 1, e);
            add_fp(pr.below(2) ? v : -v);
            add_fp((long double) keys[n - 1] + v);
            add_fp((long double) keys[0] - v);
        }
    } else {
        const i128 lo = (i128) std::numeric_limits<K>::lowest(), top = (i128) std::numeric_limits<K>::max() - 1;
        add_int(lo), add_int(lo + 1), add_int(top), add_int(top - 1), add_int(0), add_int(1), add_int(-1);
        add_int((i128) keys[0] - 1), add_int((i128) keys[n - 1] + 1);
        for (unsigned b = 0; b < sizeof(K) * 8; ++b) {
            add_int((i128) 1 << b);
            add_int(((i128) 1 << b) - 1);
            add_int(-((i128) 1 << b));
            add_int((i128) keys[n - 1] + ((i128) 1 << b));
            add_int((i128) keys[0] - ((i128) 1 << b));
        }
        for (int i = 0; i < 32; ++i) { // log-uniform random values over the whole type ("astronomically far")
            unsigned b = (unsigned) pr.below(sizeof(K) * 8 + 1);
            uint64_t v = b == 0 ? 0 : (b == 64 ? pr.next() : (pr.next() & ((uint64_t(1) << b) - 1)));
            add_int((i128) v);
            add_int(lo + (i128) v);
            add_int(top - (i128) v);
        }
    }
    return q;
}

template<typename K>
std::string describe_keys(const std::vector<K> &keys, const KeyMeta &meta) {
    std::ostringstream o;
    o << "key_type=" << type_name<K>() << " n=" << keys.size() << " chunks=" << meta.chunks << " recipe: " << meta.recipe << "\n";
    // run-length encoded; long arrays are abbreviated (the tape in the replay file is the authoritative form)
    std::vector<std::pair<K, size_t>> runs;
    for (size_t i = 0; i < keys.size();) {
        size_t j = i;
        while (j < keys.size() && keys[j] == keys[i]) ++j;
        runs.emplace_back(keys[i], j - i);
        i = j;
    }
    auto put = [&](size_t r) {
        o << " " << key_str(runs[r].first);
        if (runs[r].second > 1) o << "x" << runs[r].second;
    };
    o << "keys(" << runs.size() << " distinct)=";
    if (runs.size() <= 48)
        for (size_t r = 0; r < runs.size(); ++r) put(r);
    else {
        for (size_t r = 0; r < 24; ++r) put(r);
        o << " ...";
        for (size_t r = runs.size() - 12; r < runs.size(); ++r) put(r);
    }
    o << "\n";
    return o.str();
}

} // namespace vf
