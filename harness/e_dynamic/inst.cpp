// One TU per key type: -DVF_KEY=<type> -DVF_KEYID=<id> -DVF_SET=<n>
#include "dyn_cfg.hpp"
namespace vf {
#define VF_CAT2(a, b) a##b
#define VF_CAT(a, b) VF_CAT2(a, b)
using K = VF_KEY;
#define P(E, ER) pgm::PGMIndex<K, E, ER>
#if VF_SET == 0
static const DynFn FNS[] = {&run_dynamic<K, uint32_t, P(1, 0)>, &run_dynamic<K, uint32_t *, P(4, 4)>, &run_dynamic<K, std::string, P(16, 4)>,
                            &run_dynamic<K, uint32_t, P(2, 2)>, &run_dynamic<K, double, P(4, 4)>};
#elif VF_SET == 1
static const DynFn FNS[] = {&run_dynamic<K, uint32_t, P(16, 4)>, &run_dynamic<K, std::string, P(1, 0)>, &run_dynamic<K, uint32_t *, P(2, 2)>};
#elif VF_SET == 2
static const DynFn FNS[] = {&run_dynamic<K, uint32_t, P(4, 4)>, &run_dynamic<K, std::string, P(2, 2)>};
#elif VF_SET == 3
static const DynFn FNS[] = {&run_dynamic<K, uint32_t, P(2, 2)>, &run_dynamic<K, uint32_t *, P(1, 0)>, &run_dynamic<K, std::string, P(4, 4)>,
                            &run_dynamic<K, float, P(1, 0)>};
#else
static const DynFn FNS[] = {&run_dynamic<K, uint32_t, P(1, 0)>, &run_dynamic<K, uint32_t, P(16, 4)>};
#endif
extern const DynFn *const VF_CAT(DYN_TABLE_, VF_KEYID) = FNS;
extern const int VF_CAT(DYN_N_, VF_KEYID) = int(sizeof(FNS) / sizeof(DynFn));
}
