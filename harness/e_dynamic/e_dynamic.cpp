// e_dynamic: dispatch; C05, C06, C15.
#include "../common/engine.hpp"
#include "../common/keygen.hpp"
#include <algorithm>
#include "../common/tape.hpp"

#ifdef _OPENMP
extern "C" int omp_get_num_procs(void) { return vf::g_fake_procs; }
#endif

namespace vf {
using DynFn = CaseResult (*)(const RunCtx &, TapeReader &, unsigned size_hint);
#define VF_DECL(ID) extern const DynFn *const DYN_TABLE_##ID; extern const int DYN_N_##ID;
VF_DECL(u32) VF_DECL(u64) VF_DECL(i32) VF_DECL(i64) VF_DECL(u16)

static CaseResult run(const RunCtx &ctx, const Tape &tape, Tape &canon) {
    const DynFn *const T[5] = {DYN_TABLE_u32, DYN_TABLE_u64, DYN_TABLE_i32, DYN_TABLE_i64, DYN_TABLE_u16};
    const int N[5] = {DYN_N_u32, DYN_N_u64, DYN_N_i32, DYN_N_i64, DYN_N_u16};
    TapeReader t(tape);
    unsigned size_hint = (unsigned) t.below(101);
    static const unsigned tw[] = {3, 3, 2, 3, 1};
    size_t kt = t.weighted(tw);
    size_t cfg = t.below(N[kt]);
    if (ctx.mode == "mem" && t.chance(1, 2)) size_hint = std::min(size_hint, 12u); // C17: boundary sizes (n = 1, 2, 3) every other case
    CaseResult r = T[kt][cfg](ctx, t, size_hint);
    canon = t.canon();
    return r;
}

static const char *rule(const std::string &prop) {
    if (prop == "C05")
        return "cases: {base in 2..128, buffer_level 0..3, index_level 0 (default) or 1..6, 16 (key type, value type in {uint32_t, uint32_t*, std::string, double, float (incl. +-infinity, lowest, +-0, denormals)}, "
               "PGMType epsilon in {1,2,4,16}) instantiations} x key universe (generated sorted distinct keys incl. lowest()/max-1) x bulk-load (default ctor, "
               "empty range, sorted pairs with repeated keys) x 4..420 ops {INS, ERASE, INS_RUN, ERASE_RUN (up to 5000 keys), FIND, LB} drawing keys by "
               "universe index (+-1 for queries). oracle: std::map after every update (touched key +-1: find, count, lower_bound; samples after runs; full "
               "traversal at the end). non-trivial: a merge beyond the buffer level happened and a key living in an older level was erased (tombstone "
               "shadowing); distinct by canonical tape hash";
    if (prop == "C06")
        return "cases: as C05 with ops {INS, ERASE, INS_RUN, ERASE_RUN, SCAN, ITER_FROM(k, steps), RANGE(lo,hi), SIZE_EMPTY}. oracle: full sequence equality "
               "with std::map (keys strictly increasing, current values, end() reached in exactly size steps, step limit against runaway iteration); "
               "range(lo,hi) == [map.lower_bound(lo), map.upper_bound(hi)) exactly; size()/empty(). non-trivial: a SCAN over >= 2 non-empty levels holding "
               "a tombstone and a stale version; distinct by canonical tape hash";
    return "cases: as C05 (updates only). oracle after every update and after the bulk-load, through the befriended accessor: every level strictly sorted, "
           "buffer <= sum base^j, level i <= base^i, nothing beyond used_levels, every non-empty level >= index level owns an index byte-identical to "
           "PGMType(level) built fresh, emptied levels have a default index. non-trivial: an update whose merge changed >= 2 levels at or above the index "
           "level; distinct by canonical tape hash";
}

const Engine ENGINE = {"e_dynamic", 2048, &run, &rule};
} // namespace vf
