// e_dynamic: DynamicPGMIndex — C05 (point queries vs std::map), C06 (traversal/range/size/empty vs std::map),
// C15 (LSM invariants after every update, through the befriended accessor).
#pragma once
#include "../common/engine.hpp"
#include "../common/keygen.hpp"
#include "pgm/pgm_index_dynamic.hpp"
#include <cstring>
#include <map>
#include <memory>
#include <sstream>

// Accessor befriended by DynamicPGMIndex under PGM_INDEX_VERIF.
struct pgm::verif::Access {
    template<typename D> static const auto &levels(const D &d) { return d.levels; }
    template<typename D> static const auto &pgms(const D &d) { return d.pgms; }
    template<typename D> static unsigned used_levels(const D &d) { return d.used_levels; }
    template<typename D> static unsigned min_level(const D &d) { return d.min_level; }
    template<typename D> static unsigned min_index_level(const D &d) { return d.min_index_level; }
    template<typename D> static size_t buffer_max_size(const D &d) { return d.buffer_max_size; }
    template<typename D> static unsigned base(const D &d) { return d.base; }
};

namespace vf {

using Acc = pgm::verif::Access;
using DynFn = CaseResult (*)(const RunCtx &, TapeReader &, unsigned size_hint);

// ------------------------------------------------------------------ mapped value kinds
template<typename V> struct Val;
template<> struct Val<uint32_t> {
    static uint32_t make(uint32_t id) { return id; } // ids never reach the reserved tombstone (numeric max)
    static const char *name() { return "uint32_t"; }
};
inline uint32_t *val_pool() {
    static uint32_t pool[1 << 16];
    return pool;
}
template<> struct Val<uint32_t *> {
    static uint32_t *make(uint32_t id) { return val_pool() + (id & 0xFFFF); }
    static const char *name() { return "uint32_t*"; }
};
template<> struct Val<std::string> {
    static std::string make(uint32_t id) { return "v" + std::to_string(id) + (id % 7 == 0 ? std::string(24, 'x') : std::string()); }
    static const char *name() { return "std::string"; }
};

// floating-point mapped types: the reserved tombstone is numeric max; everything else - including both infinities, the lowest
// value, zero of either sign and denormals - is an ordinary value (NaN is left out: it does not compare equal to itself)
template<typename F>
static F fp_val(uint32_t id) {
    switch (id % 16) {
        case 3: return std::numeric_limits<F>::infinity();
        case 7: return -std::numeric_limits<F>::infinity();
        case 11: return std::numeric_limits<F>::lowest();
        case 13: return id % 32 < 16 ? F(0) : -F(0);
        case 15: return std::numeric_limits<F>::denorm_min();
        default: return F(id) * F(0.5);
    }
}
template<> struct Val<double> {
    static double make(uint32_t id) { return fp_val<double>(id); }
    static const char *name() { return "double"; }
};
template<> struct Val<float> {
    static float make(uint32_t id) { return fp_val<float>(id % 1000003); }
    static const char *name() { return "float"; }
};

/// Protected members of a PGMIndex instantiation through pointers to members named via a derived class (well-formed C++).
template<typename PGM>
struct PgmPeek : PGM {
    static constexpr auto segs() { return &PgmPeek::segments; }
    static constexpr auto offs() { return &PgmPeek::levels_offsets; }
    static constexpr auto cnt() { return &PgmPeek::n; }
    static constexpr auto fk() { return &PgmPeek::first_key; }
};

template<typename PGM>
bool pgm_identical(const PGM &a, const PGM &b, std::string &why) {
    const auto &sa = a.*(PgmPeek<PGM>::segs()), &sb = b.*(PgmPeek<PGM>::segs());
    const auto &oa = a.*(PgmPeek<PGM>::offs()), &ob = b.*(PgmPeek<PGM>::offs());
    if (a.*(PgmPeek<PGM>::cnt()) != b.*(PgmPeek<PGM>::cnt())) return why = "n differs", false;
    if (!sa.empty() && a.*(PgmPeek<PGM>::fk()) != b.*(PgmPeek<PGM>::fk())) return why = "first_key differs", false;
    if (oa != ob) return why = "levels_offsets differ", false;
    if (sa.size() != sb.size()) return why = "number of segments differs", false;
    if (!sa.empty() && std::memcmp(sa.data(), sb.data(), sa.size() * sizeof(sa[0])) != 0) return why = "segments differ", false;
    return true;
}

template<typename PGM>
bool pgm_is_default(const PGM &a) {
    return (a.*(PgmPeek<PGM>::segs())).empty() && (a.*(PgmPeek<PGM>::offs())).empty();
}

struct DynOp {
    enum Kind { INS, ERASE, INS_RUN, ERASE_RUN, FIND, LB, SCAN, ITER_FROM, RANGE, SIZE_EMPTY, ERASE_ALL, CHURN } kind;
    size_t a = 0, b = 0, c = 0; // universe index / count / stride or second index
    int da = 0, db = 0;         // -1/0/+1 offsets for query keys
};

inline const char *dyn_op_name(DynOp::Kind k) {
    static const char *n[] = {"INS", "ERASE", "INS_RUN", "ERASE_RUN", "FIND", "LB", "SCAN", "ITER_FROM", "RANGE", "SIZE_EMPTY", "ERASE_ALL", "CHURN"};
    return n[k];
}

template<typename K, typename V, typename PGM>
CaseResult run_dynamic(const RunCtx &ctx, TapeReader &t, unsigned size_hint) {
    using Dyn = pgm::DynamicPGMIndex<K, V, PGM>;
    CaseResult res;
    const bool c05 = ctx.prop == "C05", c06 = ctx.prop == "C06", c15 = ctx.prop == "C15";
    const bool mem = ctx.mode == "mem";

    // ---------------------------------------------------------------- configuration
    static const unsigned bases[] = {8, 2, 4, 16, 32, 64, 128};
    unsigned base = bases[t.below(7)];
    unsigned lg = __builtin_ctz(base);
    unsigned buffer_level = (unsigned) t.below(4);
    (void) lg;
    while (buffer_level > 0 && lg * (buffer_level + 1) > 21) --buffer_level; // keep the eager reserve() of the library below ~2M entries
    static const unsigned ilw[] = {3, 2, 2, 2, 1, 1, 1};
    unsigned index_level = (unsigned) t.weighted(ilw); // 0 = default (2^24 entries): no level is ever indexed

    // ---------------------------------------------------------------- key universe
    KeyMeta meta;
    GenOpts o;
    o.eps = 4;
    o.size_hint = std::min(size_hint, 79u); // universes up to 5000 keys
    o.allow_threads = false;
    o.max_n = 6000;
    std::vector<K> uni = gen_keys<K>(t, o, meta);
    uni.erase(std::unique(uni.begin(), uni.end()), uni.end());
    // "deep" class (about 1 history in 100): base 2 or 4 with a tiny buffer and 2^16..2^19 distinct keys inserted one by one, so that
    // 14..18 levels are live at once (the k-way merge of the iterator, find() and lower_bound() walk all of them)
    const bool deep = sizeof(K) >= 4 && size_hint >= 97 && t.chance(1, 4);
    size_t deep_n = 0;
    bool deep_full = false, deep_churn = false;
    if (deep) {
        base = t.chance(3, 4) ? 2 : 4;
        lg = __builtin_ctz(base);
        buffer_level = 1 + (unsigned) t.below(2);
        deep_n = (size_t(1) << 16) + t.below((size_t(1) << 19) - (size_t(1) << 16));
        if (t.chance(1, 2)) {
            // "all levels full" boundary: buffer and levels min+1..L completely filled, minus d in 1..3 free buffer slots, so that a
            // few more updates fit without triggering the cascade that would collapse everything into one level
            unsigned L = base == 2 ? 13 + (unsigned) t.below(6) : 6 + (unsigned) t.below(4); // top level: 2^13..2^18 / 4^6..4^9 entries
            size_t total = 0;
            for (unsigned j = 0; j <= L; ++j) total += size_t(1) << (lg * j);
            deep_n = total - (1 + t.below(3));
            deep_full = true;
        }
        K start = (K) t.below(1000);
        K stride = (K) (1 + t.below(7));
        // half of the deep histories end with a balanced churn (see DynOp::CHURN): it needs fresh keys for up to two full cascade cycles
        deep_churn = t.chance(1, 2);
        uni.resize(deep_n + 64 + (deep_churn ? (size_t(1) << 20) : 0));
        for (size_t i = 0; i < uni.size(); ++i) uni[i] = K(start + stride * K(i));
        meta.recipe = "deep: arithmetic progression start=" + key_str(start) + " stride=" + key_str(stride);
    }
    const size_t U = uni.size();

    // ---------------------------------------------------------------- bulk load
    std::vector<std::pair<K, uint32_t>> bulk; // (key, value id), sorted, repeated keys allowed (first wins)
    uint32_t next_id = 1;
    unsigned bulk_kind = deep ? (unsigned) t.below(2) : (unsigned) t.below(5); // 0 = empty container, 1 = empty range, 2 = some keys, 3 = most keys, 4 = base^L + d keys
    if (bulk_kind == 4) { // level-capacity edge: exactly base^L - 1, base^L or base^L + 1 distinct keys (if the universe has that many)
        unsigned Lmax = 1;
        while (((size_t) 1 << (lg * (Lmax + 1))) + 1 <= U && lg * (Lmax + 1) < 20) ++Lmax;
        unsigned L = 1 + (unsigned) t.below(Lmax);
        size_t want = ((size_t) 1 << (lg * L)) + t.below(3) - 1;
        want = std::max<size_t>(1, std::min(want, U));
        size_t off = t.below(U - want + 1);
        for (size_t i = 0; i < want; ++i) bulk.emplace_back(uni[off + i], next_id++);
    } else if (bulk_kind >= 2) {
        SplitMix pr(t.bits(64));
        unsigned keep = bulk_kind == 2 ? 1 + (unsigned) t.below(8) : 1;
        unsigned rep_every = 1 + (unsigned) t.below(6);
        for (size_t i = 0; i < U; ++i) {
            if (pr.below(keep) != 0) continue;
            size_t reps = pr.below(rep_every) == 0 ? 1 + pr.below(3) : 1;
            for (size_t r = 0; r < reps; ++r) bulk.emplace_back(uni[i], next_id++);
        }
    }

    // ---------------------------------------------------------------- operations
    size_t n_ops = size_hint < 20 ? 4 + t.below(20) : size_hint < 60 ? 10 + t.below(120) : 20 + t.below(400);
    std::vector<DynOp> ops;
    ops.reserve(n_ops + 2);
    if (deep) {
        DynOp big;
        big.kind = DynOp::INS_RUN;
        big.a = 0;
        big.b = deep_n;
        big.c = 1;
        ops.push_back(big);
        if (deep_full) { // newer versions / tombstones of the oldest keys in the buffer, then traversals over all the live levels
            // the successor of key #j gets a newer version (or a tombstone) in the buffer while its old version sits in the oldest level:
            // an iterator started at key #j meets the two versions as the very first tie of its k-way merge
            size_t j = t.below(8);
            DynOp o2;
            o2.kind = t.chance(1, 3) ? DynOp::ERASE : DynOp::INS;
            o2.a = j + 1;
            ops.push_back(o2);
            if (t.chance(1, 2)) {
                DynOp o3;
                o3.kind = t.chance(1, 2) ? DynOp::ERASE : DynOp::INS;
                o3.a = j + 2 + t.below(3);
                ops.push_back(o3);
            }
            DynOp it2;
            it2.kind = c05 ? DynOp::LB : DynOp::ITER_FROM;
            it2.a = j;
            it2.b = 40;
            ops.push_back(it2);
            DynOp sc;
            sc.kind = c05 ? DynOp::FIND : DynOp::SCAN;
            sc.a = j + 1;
            ops.push_back(sc);
        }
        if (deep_churn) {
            DynOp ch;
            ch.kind = DynOp::CHURN;
            ch.a = t.below(2); // who moves first: erase (1) or insert (0)
            ops.push_back(ch);
        }
        n_ops = 20 + t.below(80);
    }
    // weights: INS ERASE INS_RUN ERASE_RUN FIND LB SCAN ITER_FROM RANGE SIZE_EMPTY ERASE_ALL (erase every live key: the container drains)
    static const unsigned w05[] = {20, 12, 4, 2, 8, 8, 0, 0, 0, 0, 1}, w06[] = {20, 12, 4, 2, 0, 0, 4, 6, 8, 4, 1}, w15[] = {20, 12, 6, 4, 0, 0, 0, 0, 0, 0, 2};
    size_t recent[8] = {0, 0, 0, 0, 0, 0, 0, 0};
    size_t rp = 0;
    for (size_t i = 0; i < n_ops; ++i) {
        DynOp op;
        op.kind = (DynOp::Kind) (c05 ? t.weighted(w05) : c06 ? t.weighted(w06) : c15 ? t.weighted(w15) : t.weighted(w06));
        auto pick_idx = [&]() -> size_t {
            if (t.chance(1, 3)) return recent[t.below(8)] % U;
            size_t x = t.below(U);
            recent[rp++ & 7] = x;
            return x;
        };
        op.a = pick_idx();
        if (deep && op.kind == DynOp::ERASE_ALL) op.kind = DynOp::SCAN; // draining 2^18 keys one by one is quadratic in the library (tombstone walks)
        switch (op.kind) {
            case DynOp::INS_RUN:
            case DynOp::ERASE_RUN: {
                static const unsigned cw[] = {4, 3, 2, 1};
                switch (t.weighted(cw)) {
                    case 0: op.b = 1 + t.below(16); break;
                    case 1: op.b = 1 + t.below(200); break;
                    case 2: op.b = 200 + t.below(800); break;
                    default: op.b = 600 + t.below(4400); break;
                }
                if (deep && op.kind == DynOp::ERASE_RUN) op.b = std::min<size_t>(op.b, 300);
                op.c = 1 + t.below(3);
                break;
            }
            case DynOp::FIND:
            case DynOp::LB:
            case DynOp::ITER_FROM:
                op.da = (int) t.below(3) - 1;
                op.b = 1 + t.below(40);
                break;
            case DynOp::RANGE:
                op.b = pick_idx();
                if (t.chance(1, 4)) op.b = op.a;
                op.da = (int) t.below(3) - 1;
                op.db = (int) t.below(3) - 1;
                break;
            default: break;
        }
        ops.push_back(op);
    }

    auto qkey = [&](size_t idx, int d, K &out) -> bool { // universe key +-1, inside the domain (never the reserved max)
        i128 v = (i128) uni[idx % U] + d;
        if (v < (i128) std::numeric_limits<K>::lowest() || v >= (i128) std::numeric_limits<K>::max()) return false;
        out = (K) v;
        return true;
    };

    auto describe = [&]() {
        std::ostringstream d;
        d << "DynamicPGMIndex<" << type_name<K>() << "," << Val<V>::name() << ",PGMIndex<" << PGM::epsilon_value << ">> base=" << base << " buffer_level=" << buffer_level
          << " index_level=" << index_level << " universe=" << U << " keys [" << key_str(uni.front()) << ".." << key_str(uni.back()) << "] bulk=" << bulk.size() << " ("
          << (bulk_kind == 0 ? "default ctor" : bulk_kind == 1 ? "empty range" : bulk_kind == 4 ? "base^L+-1 pairs" : "sorted pairs") << ") ops=" << ops.size() << "\n";
        d << "universe recipe: " << meta.recipe << "\n";
        d << "ops:";
        for (size_t i = 0; i < ops.size() && i < 60; ++i) {
            d << " " << dyn_op_name(ops[i].kind) << "(" << key_str(uni[ops[i].a % U]);
            if (ops[i].kind == DynOp::INS_RUN || ops[i].kind == DynOp::ERASE_RUN) d << ",n=" << ops[i].b << ",stride=" << ops[i].c;
            if (ops[i].kind == DynOp::RANGE) d << ".." << ((ops[i].a * 31 + ops[i].b) % 12 == 0 ? std::string("<numeric max: open-ended>") : key_str(uni[ops[i].b % U]));
            if (ops[i].da) d << (ops[i].da > 0 ? "+1" : "-1");
            d << ")";
        }
        if (ops.size() > 60) d << " ...";
        d << "\n";
        return d.str();
    };
    if (ctx.want_desc) res.desc = describe();
    if (!ctx.execute) return res;

    // ---------------------------------------------------------------- run
    std::map<K, uint32_t> model;
    std::unique_ptr<Dyn> dyn;
    try {
        if (bulk_kind == 0) dyn.reset(new Dyn((uint8_t) base, (uint8_t) buffer_level, (uint8_t) index_level));
        else {
            std::vector<std::pair<K, V>> data;
            for (auto &p: bulk) {
                data.emplace_back(p.first, Val<V>::make(p.second));
                model.emplace(p.first, p.second); // first one wins
            }
            dyn.reset(new Dyn(data.begin(), data.end(), (uint8_t) base, (uint8_t) buffer_level, (uint8_t) index_level));
        }
    } catch (const std::exception &e) {
        res.fail(std::string("constructor threw on in-domain input: ") + e.what());
        return res;
    }

    char lbl[64];
    snprintf(lbl, sizeof lbl, "base_%u", base);
    res.label(base == 2 ? "base_2" : base == 4 ? "base_4" : base == 8 ? "base_8" : base == 16 ? "base_16" : base == 32 ? "base_32" : base == 64 ? "base_64" : "base_128");
    res.label(bulk_kind == 0 ? "ctor_default" : bulk_kind == 1 ? "ctor_empty_range" : bulk_kind == 4 ? "ctor_bulk_load_capacity_edge" : "ctor_bulk_load");
    res.label(index_level == 0 ? "index_level_default" : "index_level_low");
    if (deep) res.label("deep_history_ge_2p16_inserts");
    if (deep_full) res.label("deep_all_levels_full");

    uint64_t n_updates = 0, n_checks = 0;
    bool saw_deep_merge = false, saw_shadow_erase = false, saw_indexed_level = false, saw_perm_delete_possible = false, saw_ge3_levels = false;
    bool nt06 = false, nt15 = false;
    std::vector<size_t> prev_sizes;
    std::vector<const void *> prev_data;

    auto expect_item = [&](const char *what, const K &q, const typename Dyn::iterator &it, typename std::map<K, uint32_t>::const_iterator want) -> bool {
        ++n_checks;
        if (mem) return true;
        bool got_end = it == dyn->end();
        if (want == model.end()) {
            if (!got_end) {
                res.fail(std::string(what) + "(" + key_str(q) + ") returned key " + key_str(it->first) + ", the model has no such element (expected end())");
                return false;
            }
            return true;
        }
        if (got_end) {
            res.fail(std::string(what) + "(" + key_str(q) + ") returned end(), the model has key " + key_str(want->first));
            return false;
        }
        if (it->first != want->first || !(it->second == Val<V>::make(want->second))) {
            res.fail(std::string(what) + "(" + key_str(q) + ") returned key " + key_str(it->first) + (it->second == Val<V>::make(want->second) ? "" : " with a stale/wrong value") +
                     ", the model says key " + key_str(want->first) + " value id " + std::to_string(want->second));
            return false;
        }
        return true;
    };
    auto point_checks = [&](const K &q) -> bool {
        if (!expect_item("find", q, dyn->find(q), model.find(q))) return false;
        size_t cnt = dyn->count(q);
        if (!mem && cnt != model.count(q)) {
            res.fail("count(" + key_str(q) + ") = " + std::to_string(cnt) + ", model " + std::to_string(model.count(q)));
            return false;
        }
        return expect_item("lower_bound", q, dyn->lower_bound(q), model.lower_bound(q));
    };
    auto around = [&](size_t idx) -> bool {
        for (int d = -1; d <= 1; ++d) {
            K q;
            if (qkey(idx, d, q) && !point_checks(q)) return false;
        }
        return true;
    };
    auto full_scan = [&]() -> bool {
        size_t steps = 0;
        auto mit = model.begin();
        for (auto it = dyn->begin(); it != dyn->end(); ++it, ++mit) {
            if (++steps > model.size() + 1) break;
            if (mem) continue;
            if (mit == model.end() || it->first != mit->first || !(it->second == Val<V>::make(mit->second))) {
                res.fail("traversal step " + std::to_string(steps) + " yields key " + key_str(it->first) + ", the model " +
                         (mit == model.end() ? std::string("is exhausted") : "expects key " + key_str(mit->first) + " (value id " + std::to_string(mit->second) + ")"));
                return false;
            }
        }
        if (mem) return true;
        if (steps != model.size()) {
            res.fail("traversal from begin() made " + std::to_string(steps) + (steps > model.size() ? "+ steps (does not reach end())" : " steps") + ", the model has " +
                     std::to_string(model.size()) + " live keys");
            return false;
        }
        return true;
    };

    // C15 invariants through the accessor
    auto invariants = [&](bool full) -> bool {
        const auto &levels = Acc::levels(*dyn);
        const auto &pgms = Acc::pgms(*dyn);
        const unsigned minl = Acc::min_level(*dyn), mini = Acc::min_index_level(*dyn), used = Acc::used_levels(*dyn), b = Acc::base(*dyn);
        const unsigned lgb = __builtin_ctz(b);
        if (prev_sizes.size() != levels.size()) prev_sizes.assign(levels.size(), size_t(-1)), prev_data.assign(levels.size(), nullptr);
        size_t changed_indexed = 0, nonempty = 0;
        size_t expect_buffer = 0;
        for (unsigned j = 0; j <= minl; ++j) expect_buffer += size_t(1) << (j * lgb);
        if (Acc::buffer_max_size(*dyn) != expect_buffer) {
            res.fail("buffer_max_size = " + std::to_string(Acc::buffer_max_size(*dyn)) + ", expected sum of base^j for j<=min_level = " + std::to_string(expect_buffer));
            return false;
        }
        for (size_t li = 0; li < levels.size(); ++li) {
            const unsigned lvl = minl + (unsigned) li;
            const auto &L = levels[li];
            if (!L.empty()) ++nonempty;
            if (lvl >= used && !L.empty()) {
                res.fail("level " + std::to_string(lvl) + " holds " + std::to_string(L.size()) + " entries but used_levels = " + std::to_string(used));
                return false;
            }
            size_t cap = lvl == minl ? expect_buffer : (lvl * lgb >= 63 ? size_t(-1) : size_t(1) << (lvl * lgb));
            if (L.size() > cap) {
                res.fail("level " + std::to_string(lvl) + " holds " + std::to_string(L.size()) + " entries, capacity " + std::to_string(cap));
                return false;
            }
            bool changed = full || prev_sizes[li] != L.size() || prev_data[li] != (const void *) L.data();
            if (lvl >= mini && (prev_sizes[li] != L.size() || prev_data[li] != (const void *) L.data()) && prev_sizes[li] != size_t(-1)) ++changed_indexed;
            prev_sizes[li] = L.size();
            prev_data[li] = (const void *) L.data();
            if (!changed) continue;
            for (size_t i = 1; i < L.size(); ++i)
                if (!(L[i - 1].first < L[i].first)) {
                    res.fail("level " + std::to_string(lvl) + " is not strictly sorted at position " + std::to_string(i) + " (keys " + key_str(L[i - 1].first) + ", " +
                             key_str(L[i].first) + ")");
                    return false;
                }
            if (lvl >= mini) {
                size_t pi = lvl - mini;
                if (L.empty()) {
                    if (pi < pgms.size() && !pgm_is_default(pgms[pi])) {
                        res.fail("level " + std::to_string(lvl) + " is empty but its PGM-index was not reset");
                        return false;
                    }
                } else {
                    saw_indexed_level = true;
                    if (pi >= pgms.size()) {
                        res.fail("non-empty level " + std::to_string(lvl) + " at or above the index level has no PGM-index slot");
                        return false;
                    }
                    PGM fresh(L.begin(), L.end());
                    std::string why;
                    if (!pgm_identical(pgms[pi], fresh, why)) {
                        res.fail("PGM-index of level " + std::to_string(lvl) + " (" + std::to_string(L.size()) + " entries) is not the index of the level's current keys: " + why);
                        return false;
                    }
                }
            }
        }
        if (changed_indexed >= 2) nt15 = true;
        if (nonempty >= 3) saw_ge3_levels = true;
        if (used > minl + 1) saw_deep_merge = true;
        return true;
    };

    auto do_insert = [&](size_t idx) -> bool {
        K k = uni[idx % U];
        uint32_t id = next_id++;
        if (next_id > 4000000000u) next_id = 1;
        try {
            dyn->insert_or_assign(k, Val<V>::make(id));
        } catch (const std::exception &e) {
            res.fail("insert_or_assign(" + key_str(k) + ") threw: " + e.what());
            return false;
        }
        model[k] = id;
        ++n_updates;
        return true;
    };
    auto do_erase_key = [&](K k) -> bool {
        if (model.count(k)) {
            const auto &buf = Acc::levels(*dyn)[0];
            bool in_buffer = std::binary_search(buf.begin(), buf.end(), k, [](const auto &a, const auto &b) { return K(a) < K(b); });
            if (!in_buffer) saw_shadow_erase = true;
        }
        try {
            dyn->erase(k);
        } catch (const std::exception &e) {
            res.fail("erase(" + key_str(k) + ") threw: " + e.what());
            return false;
        }
        model.erase(k);
        ++n_updates;
        return true;
    };
    auto do_erase = [&](size_t idx) -> bool { return do_erase_key(uni[idx % U]); };
    auto after_update = [&](size_t idx, bool light) -> bool {
        if (c15 && !mem) return invariants(false);
        if (light && (n_updates & 15)) { // inside long runs: find/count of the touched key always, its neighbours every 16th update
            K q = uni[idx % U];
            // (lower_bound walks over every tombstone behind the key: it is asked every 16th update only, every 512th in deep histories)
            if (!expect_item("find", q, dyn->find(q), model.find(q))) return false;
            return true;
        }
        if (deep && (n_updates & 511)) return true;
        return around(idx);
    };

    if (c15 && !mem && !invariants(true)) return res;
    if (!c15 && model.size() <= 3000 && !full_scan()) return res;

    SplitMix spr(meta.query_seed);
    for (size_t oi = 0; oi < ops.size() && res.ok; ++oi) {
        const DynOp &op = ops[oi];
        switch (op.kind) {
            case DynOp::INS:
                if (do_insert(op.a)) after_update(op.a, false);
                break;
            case DynOp::ERASE:
                if (do_erase(op.a)) after_update(op.a, false);
                break;
            case DynOp::INS_RUN:
            case DynOp::ERASE_RUN:
                for (size_t i = 0; i < op.b && res.ok; ++i) {
                    size_t idx = (op.a + i * op.c) % U;
                    bool okk = op.kind == DynOp::INS_RUN ? do_insert(idx) : do_erase(idx);
                    if (okk) after_update(idx, true);
                }
                if (res.ok && !c15) { // sample of the universe after the run
                    for (int s = 0; s < 24 && res.ok; ++s) around(spr.below(U));
                }
                break;
            case DynOp::ERASE_ALL: {
                std::vector<K> live;
                for (auto &kv: model) live.push_back(kv.first);
                if (op.a & 1) std::reverse(live.begin(), live.end());
                for (const K &k: live) {
                    if (!res.ok) break;
                    if (!do_erase_key(k)) break;
                    if (c15 && !mem) invariants(false);
                    else if ((n_updates & 15) == 0) expect_item("find", k, dyn->find(k), model.find(k));
                }
                if (res.ok && !c15) full_scan();
                res.label("erase_all");
                break;
            }
            case DynOp::CHURN: {
                // Balanced churn, steered through the accessor: fresh keys are inserted until a cascade has just emptied every level above
                // the deepest one; then erases of the oldest keys (they live in the deepest level) alternate with inserts of fresh keys
                // until the next such cascade.  That merge cancels as many stored keys as it adds (or one more / one fewer, depending on
                // who moved first and on the parity of the cycle), so the deepest level - tens of thousands of entries - changes its key
                // set while keeping its size.
                auto upper_empty = [&]() {
                    const auto &lv = Acc::levels(*dyn);
                    unsigned used = Acc::used_levels(*dyn) - Acc::min_level(*dyn);
                    if (used < 2) return false;
                    for (unsigned i = 0; i + 1 < used; ++i)
                        if (!lv[i].empty()) return false;
                    return !lv[used - 1].empty();
                };
                size_t fresh = deep_n + 64, old = 0, guard = 0;
                while (res.ok && !upper_empty() && fresh < U && guard++ < (size_t(1) << 19)) {
                    if (do_insert(fresh)) after_update(fresh, true);
                    ++fresh;
                }
                bool erase_turn = op.a & 1, first = true;
                size_t erased = 0, added = 0;
                guard = 0;
                while (res.ok && fresh < U && old < deep_n && guard++ < (size_t(1) << 19)) {
                    size_t idx = erase_turn ? old++ : fresh++;
                    bool okk = erase_turn ? do_erase(idx) : do_insert(idx);
                    (erase_turn ? erased : added) += 1;
                    if (okk) after_update(idx, true);
                    erase_turn = !erase_turn;
                    if (!first && upper_empty()) break;
                    first = false;
                }
                res.label("balanced_churn_into_the_deepest_level");
                if (erased == added) res.label("balanced_churn_equal_counts");
                if (res.ok && c15 && !mem) invariants(true);
                if (res.ok && !c15)
                    for (int s2 = 0; s2 < 300 && res.ok; ++s2) around(s2 & 1 ? spr.below(old + 64) : deep_n + 64 + spr.below(fresh - deep_n - 64 + 1));
                break;
            }
            case DynOp::FIND:
            case DynOp::LB: {
                K q;
                if (qkey(op.a, op.da, q)) point_checks(q);
                break;
            }
            case DynOp::SCAN: {
                // non-trivial rule of C06: >= 2 non-empty levels holding a stale version and a tombstone
                const auto &levels = Acc::levels(*dyn);
                size_t nonempty = 0, total = 0;
                bool tomb = false;
                for (auto &L: levels) {
                    if (!L.empty()) ++nonempty;
                    total += L.size();
                    for (auto &it: L) tomb |= it.deleted();
                }
                size_t tombs = 0;
                for (auto &L: levels)
                    for (auto &it: L) tombs += it.deleted();
                bool stale = total - tombs > model.size(); // more live-looking entries than live keys => some key is stored twice
                if (nonempty >= 2 && tomb && stale) nt06 = true;
                full_scan();
                break;
            }
            case DynOp::ITER_FROM: {
                K q;
                if (!qkey(op.a, op.da, q)) break;
                auto it = dyn->lower_bound(q);
                auto mit = model.lower_bound(q);
                if (!expect_item("lower_bound", q, it, mit)) break;
                for (size_t s = 0; s < op.b && mit != model.end() && res.ok; ++s) {
                    ++it;
                    ++mit;
                    if (!expect_item("++ from lower_bound", q, it, mit)) break;
                }
                break;
            }
            case DynOp::RANGE: {
                K lo, hi;
                if (!qkey(op.a, op.da, lo) || !qkey(op.b, op.db, hi)) break;
                if (lo > hi) std::swap(lo, hi);
                // 1 range in 12 is open-ended: hi is the largest value of the key type ("everything from lo on")
                if ((op.a * 31 + op.b) % 12 == 0) hi = std::numeric_limits<K>::max();
                std::vector<std::pair<K, V>> got;
                try {
                    got = dyn->range(lo, hi);
                } catch (const std::exception &e) {
                    res.fail("range(" + key_str(lo) + "," + key_str(hi) + ") threw: " + e.what());
                    break;
                }
                ++n_checks;
                if (mem) break;
                auto b = model.lower_bound(lo), e = model.upper_bound(hi);
                size_t i = 0;
                bool okk = true;
                for (auto m = b; m != e; ++m, ++i) {
                    if (i >= got.size() || got[i].first != m->first || !(got[i].second == Val<V>::make(m->second))) {
                        okk = false;
                        break;
                    }
                }
                if (!okk || i != got.size()) {
                    res.fail("range(" + key_str(lo) + "," + key_str(hi) + ") returned " + std::to_string(got.size()) + " pairs, the model has " +
                             std::to_string((size_t) std::distance(b, e)) + "; first difference at #" + std::to_string(i) +
                             (i < got.size() ? " (got key " + key_str(got[i].first) + ")" : std::string(" (result too short)")));
                }
                break;
            }
            case DynOp::SIZE_EMPTY: {
                size_t s = dyn->size();
                bool e = dyn->empty();
                ++n_checks;
                if (mem) break;
                if (s != model.size() || e != model.empty())
                    res.fail("size() = " + std::to_string(s) + " empty() = " + (e ? "true" : "false") + ", the model has " + std::to_string(model.size()) + " live keys");
                break;
            }
        }
    }
    if (res.ok && c15 && !mem) invariants(true);
    if (res.ok && !c15) {
        if (model.size() <= 6000) full_scan();
        if (res.ok) {
            size_t s = dyn->size();
            if (!mem && s != model.size()) res.fail("final size() = " + std::to_string(s) + ", model " + std::to_string(model.size()));
        }
    }
    if (mem) { // C17: the remaining public observers are executed too (results only consumed)
        volatile size_t sink = dyn->size_in_bytes() + dyn->index_size_in_bytes();
        (void) sink;
    }
    {
        const unsigned used = Acc::used_levels(*dyn), minl = Acc::min_level(*dyn), mini = Acc::min_index_level(*dyn);
        if (used > minl + 1) saw_deep_merge = true;
        if (used > mini) saw_indexed_level = true;
        (void) saw_perm_delete_possible;
    }

    res.sum("updates", n_updates);
    res.sum("oracle_checks", n_checks);
    if (saw_deep_merge) res.label("merged_beyond_buffer");
    if (saw_shadow_erase) res.label("erase_shadowing_older_level");
    if (saw_indexed_level) res.label("indexed_level_in_use");
    if (saw_ge3_levels) res.label("ge3_nonempty_levels");
    if (c05) res.nontrivial = saw_deep_merge && saw_shadow_erase;
    if (c06) res.nontrivial = nt06;
    if (c15) res.nontrivial = nt15;
    if (mem) res.nontrivial = saw_deep_merge;
    if (!res.ok && ctx.want_desc) res.desc = describe();
    return res;
}

} // namespace vf
