// e_cif: the C interface (c-interface/cpgm.h, compiled from $VERIF_REPO/c-interface/cpgm.cpp) — C18.
#include "../common/engine.hpp"
#include <algorithm>
#include "../common/keygen.hpp"
#include "cpgm.h"
#include <map>
#include <sstream>

#ifdef _OPENMP
extern "C" int omp_get_num_procs(void) { return vf::g_fake_procs; }
#endif

namespace vf {

template<typename T> struct CStatic;
template<typename T> struct CDyn;

#define VF_CSTATIC(type)                                                                                                          \
    template<> struct CStatic<type##_t> {                                                                                         \
        using H = pgm_index_##type##_t;                                                                                           \
        static H *create(const type##_t *a, size_t n, size_t e) { return pgm_index_##type##_create(a, n, e); }                    \
        static void destroy(H *h) { pgm_index_##type##_destroy(h); }                                                              \
        static approx_pos_t search(H *h, type##_t q) { return pgm_index_##type##_search(h, q); }                                  \
        static size_t bytes(H *h) { return pgm_index_##type##_size_in_bytes(h); }                                                 \
    };
VF_CSTATIC(int32) VF_CSTATIC(int64) VF_CSTATIC(uint32) VF_CSTATIC(uint64)

#define VF_CDYN(type)                                                                                                             \
    template<> struct CDyn<type##_t> {                                                                                            \
        using T = type##_t;                                                                                                       \
        using H = dynamic_pgm_index_##type##_t;                                                                                   \
        using P = pair_##type##_t;                                                                                                \
        static H *create(const P *a, size_t n) { return dynamic_pgm_index_##type##_create(a, n); }                                \
        static H *create_empty() { return dynamic_pgm_index_##type##_create_empty(); }                                            \
        static void destroy(H *h) { dynamic_pgm_index_##type##_destroy(h); }                                                      \
        static size_t size(H *h) { return dynamic_pgm_index_##type##_size(h); }                                                   \
        static void insert(H *h, T k, T v) { dynamic_pgm_index_##type##_insert_or_assign(h, k, v); }                              \
        static void erase(H *h, T k) { dynamic_pgm_index_##type##_erase(h, k); }                                                  \
        static bool find(H *h, T k, T *v) { return dynamic_pgm_index_##type##_find(h, k, v); }                                    \
        static void *begin(H *h) { return dynamic_pgm_index_##type##_begin(h); }                                                  \
        static void *lower_bound(H *h, T q) { return dynamic_pgm_index_##type##_lower_bound(h, q); }                              \
        static bool next(H *h, void *it, T *k, T *v) { return dynamic_pgm_index_##type##_iterator_next(h, it, k, v); }            \
        static void it_destroy(void *it) { dynamic_pgm_index_##type##_iterator_destroy(it); }                                     \
    };
VF_CDYN(int32) VF_CDYN(int64) VF_CDYN(uint32)

static size_t gen_epsilon(TapeReader &t) {
    static const unsigned w[] = {4, 3, 2};
    switch (t.weighted(w)) {
        case 0: return 1 + t.below(8);
        case 1: return 1 + t.loguniform(12) % 4096;
        default: {
            static const size_t b[] = {1, 2, 3, 4, 63, 64, 65, 127, 128, 1024, 4095, 4096};
            return t.pick(b);
        }
    }
}

template<typename K>
CaseResult run_static(const RunCtx &ctx, TapeReader &t, unsigned size_hint) {
    using C = CStatic<K>;
    CaseResult res;
    const bool mem = ctx.mode == "mem";
    size_t eps = gen_epsilon(t);
    if (const std::string *xe = ctx.x("xeps")) eps = strtoull(xe->c_str(), nullptr, 10);
    KeyMeta meta;
    GenOpts o;
    o.eps = std::min<size_t>(eps, 1024);
    o.size_hint = size_hint;
    o.xkeys = ctx.x("xkeys");
    o.xthreads = ctx.x("xthreads");
    o.xprocs = ctx.x("xprocs");
    std::vector<K> keys = gen_keys<K>(t, o, meta);
    // with probability 1/12 the data ends with k >= 1 copies of the reserved value: create must return NULL
    size_t reserved_tail = t.chance(1, 12) ? 1 + t.below(3) : 0;
    if (const std::string *xr = ctx.x("xreserved")) reserved_tail = strtoull(xr->c_str(), nullptr, 10);
    const size_t n_valid = keys.size();
    size_t n_by = t.below(3), by_eps[2] = {1, 1}; // bystander indexes (a tape that ends here decodes to none)
    for (size_t b = 0; b < n_by; ++b) by_eps[b] = gen_epsilon(t);
    if (const std::string *xb = ctx.x("xbystanders")) {
        n_by = 0;
        std::istringstream is(*xb);
        size_t e;
        while (n_by < 2 && is >> e) by_eps[n_by++] = e;
    }

    if (ctx.want_desc) {
        std::ostringstream d;
        d << "pgm_index_" << type_name<K>() << " epsilon=" << eps << " reserved_tail=" << reserved_tail << " bystanders=" << n_by;
        for (size_t b = 0; b < n_by; ++b) d << (b ? "," : " with epsilon ") << by_eps[b];
        d << " " << describe_keys(keys, meta);
        res.desc = d.str();
        std::string xk = keys_to_text(keys);
        if (!xk.empty()) {
            res.xdata.emplace_back("xkeys", xk);
            res.xdata.emplace_back("xthreads", std::to_string(meta.threads));
            res.xdata.emplace_back("xprocs", std::to_string(meta.procs));
            res.xdata.emplace_back("xeps", std::to_string(eps));
            res.xdata.emplace_back("xreserved", std::to_string(reserved_tail));
            std::string xb;
            for (size_t b = 0; b < n_by; ++b) xb += (b ? " " : "") + std::to_string(by_eps[b]);
            res.xdata.emplace_back("xbystanders", xb);
        }
    }
    if (!ctx.execute) return res;

    vf_set_threads(meta.threads);
    std::vector<K> data = keys;
    for (size_t i = 0; i < reserved_tail; ++i) data.push_back(std::numeric_limits<K>::max());
    typename C::H *h = nullptr;
    try {
        h = C::create(data.data(), data.size(), eps);
    } catch (const std::exception &e) {
        res.fail(std::string("create let an exception escape the C boundary: ") + e.what());
        return res;
    }
    res.label("static");
    res.label(meta.size_class);
    if (meta.chunks > 1) res.label("chunked");
    if (reserved_tail) {
        res.label("reserved_value_in_data");
        if (h != nullptr) {
            C::destroy(h);
            res.fail("create returned a handle although the data contains the reserved value (numeric max) at position " + std::to_string(n_valid));
        }
        res.nontrivial = n_valid >= 2;
        return res;
    }
    if (h == nullptr) {
        res.fail("create returned NULL on valid data");
        return res;
    }
    std::vector<K> queries = gen_queries<K>(keys, meta, std::min<size_t>(eps, 64), false, false);
    // Bystanders: 0..2 further static indexes of the same key type, created AFTER h with epsilons of their own and alive while h is queried
    // (a handle's answers must depend on nothing but its own data and epsilon).  Their data is every stride-th key of the case.
    struct By {
        typename C::H *h;
        std::vector<K> keys;
        size_t eps;
    };
    std::vector<By> bys;
    for (size_t b = 0; b < n_by; ++b) {
        By y;
        size_t stride = 1 + by_eps[b] % 3;
        for (size_t i = 0; i < keys.size(); i += stride) y.keys.push_back(keys[i]);
        y.eps = by_eps[b];
        y.h = C::create(y.keys.data(), y.keys.size(), y.eps);
        if (y.h == nullptr) {
            res.fail("create returned NULL on valid data (bystander)");
            for (auto &z: bys) C::destroy(z.h);
            C::destroy(h);
            return res;
        }
        bys.push_back(std::move(y));
    }
    if (n_by) res.label("bystanders_alive");
    bool eps_differ = false;
    for (auto &y: bys) eps_differ |= y.eps != eps;
    if (eps_differ) res.label("bystander_epsilon_differs");
    const size_t n = keys.size();
    uint64_t nq = 0;
    bool absent = false;
    size_t prev_lo = size_t(-1), distinct_ranges = 0;
    auto check_queries = [&](typename C::H *hh, const std::vector<K> &ks, size_t e, size_t limit, const char *who) {
        const size_t nn = ks.size();
        size_t done = 0;
        for (const K &q: queries) {
            if (done++ >= limit) break;
            approx_pos_t r = C::search(hh, q);
            ++nq;
            if (mem) continue;
            size_t L = size_t(std::lower_bound(ks.begin(), ks.end(), q) - ks.begin());
            bool present = L < nn && ks[L] == q;
            std::ostringstream w;
            w << who << "query=" << key_str(q) << " search={pos=" << r.pos << ",lo=" << r.lo << ",hi=" << r.hi << "} lower_bound=" << L << " n=" << nn
              << " epsilon=" << e << (present ? " (present)" : " (absent)");
            if (!(r.lo <= r.hi && r.hi <= nn)) return res.fail("range not inside [0,n]: " + w.str()), false;
            if (r.hi - r.lo > 2 * e + 2) return res.fail("range wider than 2*epsilon+2: " + w.str()), false;
            size_t Lr = size_t(std::lower_bound(ks.begin() + r.lo, ks.begin() + r.hi, q) - ks.begin());
            if (Lr != L) return res.fail("lower_bound in [lo,hi) = " + std::to_string(Lr) + " differs from global: " + w.str()), false;
            if (present && !(r.lo <= L && L < r.hi)) return res.fail("first occurrence not strictly inside [lo,hi): " + w.str()), false;
            if (!present) absent = true;
            if (r.lo != prev_lo) ++distinct_ranges, prev_lo = r.lo;
        }
        return true;
    };
    bool okq = check_queries(h, keys, eps, size_t(-1), "");
    for (size_t b = 0; okq && b < bys.size(); ++b) okq = check_queries(bys[b].h, bys[b].keys, bys[b].eps, 300, b ? "[bystander 2] " : "[bystander 1] ");
    if (okq && !bys.empty()) okq = check_queries(h, keys, eps, 300, "[after the bystanders' queries] ");
    for (auto &y: bys) C::destroy(y.h);
    size_t bytes = C::bytes(h);
    C::destroy(h);
    res.sum("queries", nq);
    // non-trivial: epsilon differs from the compile-time 1 and the data needs >= 2 segments (size_in_bytes grows with the segment count:
    // one segment + sentinel(s) + offsets is the floor)
    res.nontrivial = eps != 1 && absent && bytes > 3 * 16 + 3 * sizeof(size_t);
    if (mem) res.nontrivial = n <= 3 || meta.starts_lowest || meta.top_reached || meta.chunks > 1;
    if (eps != 1) res.label("epsilon_ne_1");
    return res;
}

/// "big bulk" mode: the C dynamic index is a DynamicPGMIndex with default parameters, whose levels carry a PGM-index only from 2^21
/// entries on. create() with more than 2^21 pairs is the only way to put queries through an indexed level from C.
template<typename K>
CaseResult run_dyn_big(const RunCtx &ctx, TapeReader &t) {
    using C = CDyn<K>;
    CaseResult res;
    const bool mem = ctx.mode == "mem";
    size_t n = (size_t(1) << 21) - 2 + t.below(300000); // from just below the threshold to 2.4M pairs
    uint64_t gmax = 1 + t.below(200);
    uint64_t seed = t.bits(64);
    size_t n_upd = t.below(300), n_q = 5000 + t.below(25000);
    if (ctx.want_desc) {
        std::ostringstream d;
        d << "dynamic_pgm_index_" << type_name<K>() << " create(" << n << " sorted pairs, gaps 1.." << gmax << "), " << n_upd << " updates, " << n_q
          << " x (find, lower_bound(k+1) + 3 x iterator_next), begin walk, size\n";
        res.desc = d.str();
    }
    if (!ctx.execute) return res;
    SplitMix pr(seed);
    std::vector<typename C::P> pairs(n);
    K cur = (K) pr.below(1000);
    for (size_t i = 0; i < n; ++i) {
        cur = K(cur + 1 + (K) pr.below(gmax));
        pairs[i] = {cur, (K) (i % 1000003)};
    }
    typename C::H *h = C::create(pairs.data(), n);
    if (!h) {
        res.fail("create returned NULL on valid input");
        return res;
    }
    res.label("dynamic_big_bulk");
    if (n > (size_t(1) << 21)) res.label("dynamic_indexed_level");
    std::map<K, K> overlay;       // key -> value, or tombstone marked in erased
    std::map<K, bool> erased;
    uint64_t checks = 0;
    for (size_t u = 0; u < n_upd && res.ok; ++u) {
        K k = pr.below(2) ? pairs[pr.below(n)].first : K(pairs[pr.below(n)].first + 1);
        if (pr.below(3) == 0) {
            C::erase(h, k);
            overlay.erase(k);
            erased[k] = true;
        } else {
            K v = (K) (1 + pr.below(1000000));
            C::insert(h, k, v);
            overlay[k] = v;
            erased.erase(k);
        }
    }
    // materialise the model once
    std::vector<std::pair<K, K>> model;
    model.reserve(n + overlay.size());
    {
        auto ov = overlay.begin();
        for (size_t i = 0; i < n; ++i) {
            while (ov != overlay.end() && ov->first < pairs[i].first) model.push_back(*ov++);
            if (ov != overlay.end() && ov->first == pairs[i].first) {
                model.push_back(*ov++);
                continue;
            }
            if (!erased.count(pairs[i].first)) model.emplace_back(pairs[i].first, pairs[i].second);
        }
        while (ov != overlay.end()) model.push_back(*ov++);
    }
    auto mlb = [&](K q) { return std::lower_bound(model.begin(), model.end(), q, [](const std::pair<K, K> &a, K b) { return a.first < b; }); };
    for (size_t i = 0; i < n_q && res.ok; ++i) {
        K base = pairs[pr.below(n)].first;
        K q = K(base + (K) pr.below(3)); // the key, key+1, key+2
        K v = K();
        bool got = C::find(h, q, &v);
        auto it = mlb(q);
        bool want = it != model.end() && it->first == q;
        ++checks;
        if (!mem && (got != want || (got && v != it->second))) {
            res.fail("find(" + key_str(q) + ") = " + (got ? "true" : "false") + ", model " + (want ? "has it" : "has no such key"));
            break;
        }
        void *ci = C::lower_bound(h, q);
        for (int s = 0; s < 3; ++s, ++checks) {
            K kk = K(), vv = K();
            bool more = C::next(h, ci, &kk, &vv);
            if (mem) {
                if (!more) break;
                continue;
            }
            if (it == model.end()) {
                if (more) res.fail("lower_bound(" + key_str(q) + ") + next returned " + key_str(kk) + " after the model was exhausted");
                break;
            }
            if (!more || kk != it->first || vv != it->second) {
                res.fail("lower_bound(" + key_str(q) + ") + iterator_next step " + std::to_string(s) + " returned " + (more ? key_str(kk) : std::string("false")) +
                         ", model expects " + key_str(it->first));
                break;
            }
            ++it;
        }
        C::it_destroy(ci);
    }
    if (res.ok) {
        size_t sz = C::size(h);
        if (!mem && sz != model.size()) res.fail("size() = " + std::to_string(sz) + ", model " + std::to_string(model.size()));
    }
    C::destroy(h);
    res.sum("oracle_checks", checks);
    res.nontrivial = n > (size_t(1) << 21);
    return res;
}

/// "growth" mode: a container that starts empty (or from a small bulk) and grows through every level the default parameters create on
/// the way to 10^5 entries, over a universe of 35 000 .. 120 000 distinct keys, with overwrites and erases of keys of every age.  Each
/// new level is created exactly once per container, so whatever happens only at that moment needs a history this long.
template<typename K>
CaseResult run_dyn_growth(const RunCtx &ctx, TapeReader &t) {
    using C = CDyn<K>;
    CaseResult res;
    const bool mem = ctx.mode == "mem";
    const size_t U = 35000 + t.below(85000);
    const size_t n_ops = 45000 + t.below(110000);
    const size_t bulk = t.chance(1, 3) ? t.below(3000) : 0;
    const uint64_t stride = 1 + t.below(1000);
    const unsigned p_fresh = 40 + (unsigned) t.below(40), p_erase = 10 + (unsigned) t.below(30); // per cent; the rest overwrites
    const uint64_t seed = t.bits(64);
    if (ctx.want_desc) {
        std::ostringstream d;
        d << "dynamic_pgm_index_" << type_name<K>() << " growth: bulk " << bulk << ", then " << n_ops << " updates over " << U << " keys (stride " << stride << "): " << p_fresh
          << "% inserts of the next fresh key, " << p_erase << "% erases and the rest overwrites of keys of any age; find after every update, full walk every 20000\n";
        res.desc = d.str();
    }
    if (!ctx.execute) return res;
    SplitMix pr(seed);
    auto key_of = [&](size_t i) { return (K) (1000 + (uint64_t) i * stride % 2000000000ull); };
    if (stride * U >= 2000000000ull) return res; // keys would wrap: not this class
    std::map<K, K> model;
    std::vector<typename C::P> pairs;
    size_t fresh = 0;
    uint32_t next_val = 1;
    for (; fresh < bulk; ++fresh) {
        K v = (K) next_val++;
        pairs.push_back({key_of(fresh), v});
        model.emplace(key_of(fresh), v);
    }
    typename C::H *h = bulk ? C::create(pairs.data(), pairs.size()) : C::create_empty();
    if (!h) {
        res.fail("create returned NULL on valid input");
        return res;
    }
    res.label("dynamic_growth_history");
    uint64_t checks = 0;
    auto check_find = [&](K q) {
        K v = K();
        bool got = C::find(h, q, &v);
        ++checks;
        if (mem) return true;
        auto it = model.find(q);
        if (got != (it != model.end()) || (got && v != it->second)) {
            res.fail("find(" + key_str(q) + ") = " + (got ? "true value " + key_str(v) : std::string("false")) + ", model " +
                     (it == model.end() ? std::string("has no such key (never inserted or erased)") : "value " + key_str(it->second)));
            return false;
        }
        return true;
    };
    auto full_walk = [&]() {
        void *it = C::begin(h);
        auto mit = model.begin();
        bool ok = true;
        for (;; ++mit) {
            K k = K(), v = K();
            bool more = C::next(h, it, &k, &v);
            ++checks;
            if (mem) {
                if (!more) break;
                continue;
            }
            if (mit == model.end()) {
                if (more) res.fail("begin walk: iterator_next returned key " + key_str(k) + " after the model was exhausted"), ok = false;
                break;
            }
            if (!more || k != mit->first || v != mit->second) {
                res.fail("begin walk: iterator_next returned " + (more ? "(" + key_str(k) + "," + key_str(v) + ")" : std::string("false")) + ", model expects (" +
                         key_str(mit->first) + "," + key_str(mit->second) + ")");
                ok = false;
                break;
            }
        }
        C::it_destroy(it);
        return ok;
    };
    for (size_t op = 0; op < n_ops && res.ok; ++op) {
        unsigned r = (unsigned) pr.below(100);
        if ((r < p_fresh && fresh < U) || fresh == 0) {
            K k = key_of(fresh++), v = (K) next_val++;
            C::insert(h, k, v);
            model[k] = v;
            check_find(k);
        } else {
            // a key of any age: uniformly old in half of the cases, among the last 2000 created otherwise
            size_t idx = pr.below(2) ? pr.below(fresh) : fresh - 1 - pr.below(std::min<size_t>(fresh, 2000));
            K k = key_of(idx);
            if (r < p_fresh + p_erase) {
                C::erase(h, k);
                model.erase(k);
            } else {
                K v = (K) next_val++;
                C::insert(h, k, v);
                model[k] = v;
            }
            check_find(k);
        }
        if (next_val > 2000000000u) next_val = 1;
        if (res.ok && op % 20000 == 19999) full_walk();
    }
    if (res.ok) full_walk();
    if (res.ok) {
        size_t sz = C::size(h);
        if (!mem && sz != model.size()) res.fail("size() = " + std::to_string(sz) + ", model " + std::to_string(model.size()));
    }
    C::destroy(h);
    res.sum("oracle_checks", checks);
    res.nontrivial = true;
    return res;
}

template<typename K>
CaseResult run_dyn(const RunCtx &ctx, TapeReader &t, unsigned size_hint) {
    using C = CDyn<K>;
    if (size_hint >= 97 && ctx.mode != "mem" && t.chance(1, 10)) return run_dyn_big<K>(ctx, t);
    if (size_hint >= 85 && t.chance(1, 5)) return run_dyn_growth<K>(ctx, t);
    CaseResult res;
    const bool mem = ctx.mode == "mem";
    KeyMeta meta;
    GenOpts o;
    o.eps = 4;
    o.size_hint = std::min(size_hint, 79u);
    o.allow_threads = false;
    o.max_n = 6000;
    std::vector<K> uni = gen_keys<K>(t, o, meta);
    uni.erase(std::unique(uni.begin(), uni.end()), uni.end());
    const size_t U = uni.size();
    unsigned ctor = (unsigned) t.below(3); // 0 create_empty, 1 create(empty), 2 create(sorted pairs with repeats)
    SplitMix pr(t.bits(64));
    size_t n_ops = size_hint < 30 ? 4 + t.below(30) : 10 + t.below(200);
    struct Op {
        unsigned kind;
        size_t a, b;
        int d;
    };
    std::vector<Op> ops;
    // kinds: 0 INS 1 ERASE 2 INS_RUN 3 ERASE_RUN 4 FIND 5 LOWER_BOUND+next*k 6 BEGIN+walk to the end 7 SIZE
    static const unsigned w[] = {10, 5, 3, 1, 4, 4, 1, 1};
    for (size_t i = 0; i < n_ops; ++i) {
        Op op;
        op.kind = (unsigned) t.weighted(w);
        op.a = t.below(U);
        op.b = 0;
        op.d = (int) t.below(3) - 1;
        if (op.kind == 2 || op.kind == 3) {
            static const unsigned cw[] = {4, 3, 2};
            switch (t.weighted(cw)) {
                case 0: op.b = 1 + t.below(20); break;
                case 1: op.b = 50 + t.below(600); break;
                default: op.b = 600 + t.below(3000); break;
            }
        } else if (op.kind == 5) op.b = 1 + t.below(50);
        ops.push_back(op);
    }
    if (ctx.want_desc) {
        std::ostringstream d;
        d << "dynamic_pgm_index_" << type_name<K>() << " ctor=" << (ctor == 0 ? "create_empty" : ctor == 1 ? "create(empty)" : "create(pairs)") << " universe=" << U << " ops="
          << ops.size() << " universe recipe: " << meta.recipe << "\nops:";
        static const char *names[] = {"INS", "ERASE", "INS_RUN", "ERASE_RUN", "FIND", "LB_NEXT", "BEGIN_WALK", "SIZE"};
        for (size_t i = 0; i < ops.size() && i < 60; ++i) d << " " << names[ops[i].kind] << "(" << key_str(uni[ops[i].a]) << (ops[i].b ? "," + std::to_string(ops[i].b) : "") << ")";
        d << "\n";
        res.desc = d.str();
    }
    if (!ctx.execute) return res;

    std::map<K, K> model;
    uint32_t next_val = 1;
    typename C::H *h = nullptr;
    if (ctor == 0) h = C::create_empty();
    else {
        std::vector<typename C::P> pairs;
        if (ctor == 2)
            for (size_t i = 0; i < U; ++i)
                if (pr.below(3) == 0) {
                    size_t reps = 1 + (pr.below(5) == 0 ? pr.below(3) : 0);
                    for (size_t r = 0; r < reps; ++r) {
                        K v = (K) next_val++;
                        pairs.push_back({uni[i], v});
                        model.emplace(uni[i], v);
                    }
                }
        h = C::create(pairs.data(), pairs.size());
    }
    if (!h) {
        res.fail("create returned NULL on valid input");
        return res;
    }
    res.label("dynamic");
    uint64_t checks = 0, updates = 0;
    bool walked_to_end = false;
    auto qkey = [&](size_t idx, int d, K &out) {
        i128 v = (i128) uni[idx] + d;
        if (v < (i128) std::numeric_limits<K>::lowest() || v >= (i128) std::numeric_limits<K>::max()) return false;
        out = (K) v;
        return true;
    };
    auto check_find = [&](K q) {
        K v = K();
        bool got = C::find(h, q, &v);
        ++checks;
        if (mem) return true;
        auto it = model.find(q);
        if (got != (it != model.end()) || (got && v != it->second)) {
            res.fail("find(" + key_str(q) + ") = " + (got ? "true value " + key_str(v) : std::string("false")) + ", model " +
                     (it == model.end() ? std::string("has no such key") : "value " + key_str(it->second)));
            return false;
        }
        return true;
    };
    auto walk = [&](void *it, typename std::map<K, K>::const_iterator mit, size_t steps, const char *what) {
        size_t s = 0;
        bool ok = true;
        for (; s < steps; ++s) {
            K k = K(), v = K();
            bool more = C::next(h, it, &k, &v);
            ++checks;
            if (mem) {
                if (!more) break;
                continue;
            }
            if (mit == model.end()) {
                if (more) res.fail(std::string(what) + ": iterator_next returned (" + key_str(k) + ") after the model was exhausted"), ok = false;
                else walked_to_end = true;
                break;
            }
            if (!more || k != mit->first || v != mit->second) {
                res.fail(std::string(what) + ": iterator_next step " + std::to_string(s) + " returned " + (more ? "(" + key_str(k) + "," + key_str(v) + ")" : std::string("false")) +
                         ", model expects (" + key_str(mit->first) + "," + key_str(mit->second) + ")");
                ok = false;
                break;
            }
            ++mit;
        }
        C::it_destroy(it);
        return ok;
    };
    auto upd = [&](bool ins, size_t idx) {
        K k = uni[idx];
        if (ins) {
            K v = (K) next_val++;
            if (next_val > 2000000000u) next_val = 1;
            C::insert(h, k, v);
            model[k] = v;
        } else {
            C::erase(h, k);
            model.erase(k);
        }
        ++updates;
        return check_find(k);
    };
    for (auto &op: ops) {
        if (!res.ok) break;
        switch (op.kind) {
            case 0: upd(true, op.a); break;
            case 1: upd(false, op.a); break;
            case 2:
            case 3:
                for (size_t i = 0; i < op.b && res.ok; ++i) upd(op.kind == 2, (op.a + i) % U);
                break;
            case 4: {
                K q;
                if (qkey(op.a, op.d, q)) check_find(q);
                break;
            }
            case 5: {
                K q;
                if (!qkey(op.a, op.d, q)) break;
                walk(C::lower_bound(h, q), model.lower_bound(q), op.b, "lower_bound");
                break;
            }
            case 6: walk(C::begin(h), model.begin(), model.size() + 2, "begin"); break;
            default: {
                size_t s = C::size(h);
                ++checks;
                if (!mem && s != model.size()) res.fail("size() = " + std::to_string(s) + ", model " + std::to_string(model.size()));
                break;
            }
        }
    }
    if (res.ok) walk(C::begin(h), model.begin(), model.size() + 2, "final begin");
    C::destroy(h);
    res.sum("updates", updates);
    res.sum("oracle_checks", checks);
    res.nontrivial = updates > 700 && walked_to_end; // default buffer holds 585 entries: more updates force at least one merge
    if (updates > 700) res.label("forced_merge");
    return res;
}

static CaseResult run(const RunCtx &ctx, const Tape &tape, Tape &canon) {
    TapeReader t(tape);
    unsigned size_hint = (unsigned) t.below(101);
    CaseResult r;
    const uint64_t which = t.below(7);
    if (ctx.mode == "mem" && t.chance(1, 2)) size_hint = std::min(size_hint, 12u); // C17: boundary sizes (n = 1, 2, 3) every other case
    switch (which) {
        case 0: r = run_static<int32_t>(ctx, t, size_hint); break;
        case 1: r = run_static<int64_t>(ctx, t, size_hint); break;
        case 2: r = run_static<uint32_t>(ctx, t, size_hint); break;
        case 3: r = run_static<uint64_t>(ctx, t, size_hint); break;
        case 4: r = run_dyn<int32_t>(ctx, t, size_hint); break;
        case 5: r = run_dyn<int64_t>(ctx, t, size_hint); break;
        default: r = run_dyn<uint32_t>(ctx, t, size_hint); break;
    }
    canon = t.canon();
    return r;
}

static const char *rule(const std::string &) {
    return "cases: 4/7 static (int32/int64/uint32/uint64 arrays from the shared recipe generator, run-time epsilon 1..4096 log-uniform + boundary values, 1..20 "
           "threads; 1/12 of them end with copies of the reserved value and must yield NULL; 2/3 of the others are queried while 1-2 further indexes of the same "
           "key type, created later with epsilons of their own over every 1st-3rd key, are alive, and those are checked too), 3/7 dynamic (int32/int64/uint32: create_empty / create(empty) / "
           "create(sorted pairs with repeats), then 4..210 calls of insert_or_assign, erase, runs of up to 3600 of them, find, lower_bound + iterator_next*k, "
           "begin + walk to the end, size; 1 dynamic case in ~30 is a growth history: 45 000..155 000 updates over 35 000..120 000 keys from an empty or small container, "
           "find after every update and full walks). oracle: O-range with the run-time epsilon against std::lower_bound; std::map for every dynamic call incl. the "
           "iterator_next protocol (current pair then advance; false exactly at the end). non-trivial: static with epsilon != 1, an absent query and >= 2 "
           "segments; dynamic with > 700 updates (forces a merge out of the 585-entry buffer) and an iterator walked to the end; distinct by tape hash";
}

const Engine ENGINE = {"e_cif", 1024, &run, &rule};
} // namespace vf
