// One TU per (Dimensions, T): -DVF_D=2 -DVF_T=uint32_t -DVF_ID=d2u32
#include "md_cfg.hpp"
namespace vf {
#define VF_CAT2(a, b) a##b
#define VF_CAT(a, b) VF_CAT2(a, b)
extern const MdFn VF_CAT(MD_TABLE_, VF_ID)[4] = {&run_md<VF_D, VF_T, 1>, &run_md<VF_D, VF_T, 4>, &run_md<VF_D, VF_T, 16>, &run_md<VF_D, VF_T, 64>};
}
