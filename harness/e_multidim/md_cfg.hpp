// e_multidim: MultidimensionalPGMIndex — C13 (range enumerates exactly the box, in Morton order, and terminates),
// C14 (contains is exact set membership).
#pragma once
#include "../common/engine.hpp"
#include "../common/tape.hpp"
#include "pgm/pgm_index_variants.hpp"
#include <algorithm>
#include <array>
#include <map>
#include <memory>
#include <sstream>
#include <tuple>

namespace vf {

using MdFn = CaseResult (*)(const RunCtx &, TapeReader &, unsigned size_hint);
using Pt4 = std::array<uint64_t, 4>;

template<size_t D, typename T, size_t... I>
auto to_tuple_impl(const Pt4 &p, std::index_sequence<I...>) { return std::make_tuple(T(p[I])...); }
template<size_t D, typename T>
auto to_tuple(const Pt4 &p) { return to_tuple_impl<D, T>(p, std::make_index_sequence<D>()); }
template<size_t D, typename Tuple, size_t... I>
Pt4 from_tuple_impl(const Tuple &t, std::index_sequence<I...>) {
    Pt4 p{0, 0, 0, 0};
    ((p[I] = (uint64_t) std::get<I>(t)), ...);
    return p;
}
template<size_t D, typename Tuple>
Pt4 from_tuple(const Tuple &t) { return from_tuple_impl<D>(t, std::make_index_sequence<D>()); }

/// Independent Morton encoder (plain bit loop): bit b of coordinate d goes to bit b*D + d.
template<size_t D>
unsigned __int128 morton_ref(const Pt4 &p, unsigned field_bits) {
    unsigned __int128 c = 0;
    for (unsigned b = 0; b < field_bits; ++b)
        for (size_t d = 0; d < D; ++d) c |= (unsigned __int128) ((p[d] >> b) & 1) << (b * D + d);
    return c;
}

template<size_t D>
std::string pt_str(const Pt4 &p) {
    std::string s = "(";
    for (size_t d = 0; d < D; ++d) s += (d ? "," : "") + std::to_string(p[d]);
    return s + ")";
}

template<size_t D>
std::string pts_to_text(const std::vector<Pt4> &v) {
    std::string s;
    for (auto &p: v) {
        if (!s.empty()) s += ' ';
        for (size_t d = 0; d < D; ++d) s += (d ? "," : "") + std::to_string(p[d]);
    }
    return s;
}

template<size_t D>
std::vector<Pt4> pts_from_text(const std::string &txt) {
    std::vector<Pt4> v;
    const char *p = txt.c_str();
    while (*p) {
        while (*p == ' ') ++p;
        if (!*p) break;
        Pt4 q{0, 0, 0, 0};
        for (size_t d = 0; d < D; ++d) {
            char *e;
            q[d] = strtoull(p, &e, 10);
            if (e == p) throw HarnessBug("bad explicit point text");
            p = e;
            if (d + 1 < D) {
                if (*p != ',') throw HarnessBug("bad explicit point text (comma)");
                ++p;
            }
        }
        v.push_back(q);
    }
    return v;
}

template<uint8_t D, typename T, size_t Eps>
CaseResult run_md(const RunCtx &ctx, TapeReader &t, unsigned size_hint) {
    using Index = pgm::MultidimensionalPGMIndex<D, T, Eps>;
    using Tuple = typename Index::value_type;
    constexpr unsigned field_bits = std::numeric_limits<T>::digits / D; // FieldBits of the encoder
    constexpr unsigned coord_bits = field_bits - 1;                     // coordinates must be < 2^(FieldBits-1)
    const uint64_t cmax = (uint64_t(1) << coord_bits) - 1;
    CaseResult res;
    const bool c13 = ctx.prop == "C13", c14 = ctx.prop == "C14";
    const bool mem = ctx.mode == "mem";

    // ------------------------------------------------------------------ points
    std::vector<Pt4> pts;
    std::ostringstream rec;
    size_t max_n = size_hint < 20 ? 40 : size_hint < 60 ? 600 : 6000;
    unsigned kind = (unsigned) t.below(6);
    auto rnd_coord = [&](SplitMix &pr, unsigned bits) -> uint64_t { return bits == 0 ? 0 : (pr.next() & ((uint64_t(1) << bits) - 1)); };
    Pt4 origin{0, 0, 0, 0};
    if (t.chance(1, 3))
        for (size_t d = 0; d < D; ++d) origin[d] = t.loguniform(coord_bits) & cmax;
    switch (kind) {
        case 0: { // full dense grid 2^a x 2^b (x ...), optionally repeated
            unsigned tot = 0;
            std::array<unsigned, 4> lg{0, 0, 0, 0};
            unsigned budget_bits = size_hint < 20 ? 5 : size_hint < 60 ? 9 : 12;
            for (size_t d = 0; d < D; ++d) {
                unsigned mx = std::min<unsigned>(coord_bits, budget_bits - std::min(budget_bits, tot));
                lg[d] = (unsigned) t.below(mx + 1);
                tot += lg[d];
            }
            unsigned rep = 1 + (unsigned) t.below(2);
            rec << "GRID(";
            for (size_t d = 0; d < D; ++d) rec << (d ? "x" : "") << (1u << lg[d]);
            rec << ")x" << rep;
            for (size_t d = 0; d < D; ++d) origin[d] = std::min<uint64_t>(origin[d], cmax + 1 - (uint64_t(1) << lg[d]));
            std::array<uint64_t, 4> i{0, 0, 0, 0};
            size_t total = size_t(1) << tot;
            for (size_t c = 0; c < total; ++c) {
                size_t x = c;
                Pt4 p{0, 0, 0, 0};
                for (size_t d = 0; d < D; ++d) {
                    p[d] = origin[d] + (x & ((size_t(1) << lg[d]) - 1));
                    x >>= lg[d];
                }
                for (unsigned r = 0; r < rep; ++r) pts.push_back(p);
            }
            break;
        }
        case 1: { // random subset of a small grid, with duplicates
            unsigned bits = 1 + (unsigned) t.below(std::min<unsigned>(coord_bits, 7));
            size_t n = 1 + t.below(max_n);
            SplitMix pr(t.bits(64));
            rec << "SUBGRID(2^" << bits << " per dim, n=" << n << ")";
            for (size_t d = 0; d < D; ++d) origin[d] = std::min<uint64_t>(origin[d], cmax + 1 - (uint64_t(1) << bits));
            for (size_t i = 0; i < n; ++i) {
                Pt4 p{0, 0, 0, 0};
                for (size_t d = 0; d < D; ++d) p[d] = origin[d] + rnd_coord(pr, bits);
                pts.push_back(p);
            }
            break;
        }
        case 2: { // clusters
            size_t nc = 1 + t.below(6);
            size_t per = 1 + t.below(std::max<size_t>(1, max_n / nc));
            SplitMix pr(t.bits(64));
            unsigned spread = (unsigned) t.below(std::min<unsigned>(coord_bits, 6) + 1);
            rec << "CLUSTERS(" << nc << "x" << per << ", spread 2^" << spread << ")";
            for (size_t c = 0; c < nc; ++c) {
                Pt4 ctr{0, 0, 0, 0};
                for (size_t d = 0; d < D; ++d) ctr[d] = rnd_coord(pr, coord_bits);
                for (size_t i = 0; i < per; ++i) {
                    Pt4 p{0, 0, 0, 0};
                    for (size_t d = 0; d < D; ++d) p[d] = std::min<uint64_t>(cmax, ctr[d] + rnd_coord(pr, spread));
                    pts.push_back(p);
                }
            }
            break;
        }
        case 3: { // sparse over the whole encodable space, incl. the largest coordinate
            size_t n = 1 + t.below(max_n);
            SplitMix pr(t.bits(64));
            rec << "SPARSE(n=" << n << ")";
            for (size_t i = 0; i < n; ++i) {
                Pt4 p{0, 0, 0, 0};
                for (size_t d = 0; d < D; ++d) {
                    unsigned b = (unsigned) pr.below(coord_bits + 1);
                    p[d] = rnd_coord(pr, b);
                    if (pr.below(16) == 0) p[d] = cmax;
                }
                pts.push_back(p);
            }
            break;
        }
        case 4: { // dense rows/columns: lines through the space (long runs of in/out codes)
            size_t nl = 1 + t.below(4);
            unsigned lb = 1 + (unsigned) t.below(std::min<unsigned>(coord_bits, size_hint < 60 ? 7 : 10));
            SplitMix pr(t.bits(64));
            rec << "LINES(" << nl << " x 2^" << lb << ")";
            for (size_t l = 0; l < nl; ++l) {
                size_t dim = pr.below(D);
                Pt4 base{0, 0, 0, 0};
                for (size_t d = 0; d < D; ++d) base[d] = rnd_coord(pr, std::min(coord_bits, lb + 1));
                for (uint64_t i = 0; i < (uint64_t(1) << lb); ++i) {
                    Pt4 p = base;
                    p[dim] = i;
                    pts.push_back(p);
                }
            }
            break;
        }
        default: { // tiny
            size_t n = 1 + t.below(4);
            rec << "TINY(" << n << ")";
            for (size_t i = 0; i < n; ++i) {
                Pt4 p{0, 0, 0, 0};
                for (size_t d = 0; d < D; ++d) p[d] = t.chance(1, 4) ? cmax : t.below(4);
                pts.push_back(p);
            }
            break;
        }
    }
    if (const std::string *xp = ctx.x("xpoints")) pts = pts_from_text<D>(*xp);
    if (pts.empty()) throw HarnessBug("no points generated");
    for (auto &p: pts)
        for (size_t d = 0; d < D; ++d)
            if (p[d] > cmax) throw HarnessBug("coordinate too wide generated");

    // sorted by the independent encoder
    std::vector<std::pair<unsigned __int128, Pt4>> sorted;
    sorted.reserve(pts.size());
    for (auto &p: pts) sorted.emplace_back(morton_ref<D>(p, field_bits), p);
    std::stable_sort(sorted.begin(), sorted.end(), [](auto &a, auto &b) { return a.first < b.first; });

    // ------------------------------------------------------------------ boxes (C13) / query points (C14)
    SplitMix qpr(t.bits(64));
    static const unsigned ckw[] = {3, 2, 1, 1};
    unsigned ctor_kind = (unsigned) t.weighted(ckw);
    if (const std::string *xc = ctx.x("xctor")) ctor_kind = (unsigned) atoi(xc->c_str());
    bool poison = t.chance(1, 8);
    if (poison) ctor_kind = 0; // the rejected and the real construction must use the same iterator type
    // provenance of the object that answers: as built (1/2); a copy whose source was destroyed and its memory recycled; a copy whose
    // source is alive but was assigned other points afterwards.  A copy must answer from its own storage.
    const unsigned prov = (unsigned) t.below(4);
    std::vector<std::pair<Pt4, Pt4>> boxes;
    std::vector<std::string> box_kinds;
    if (c13 || mem) {
        size_t nb = 2 + t.below(10);
        for (size_t b = 0; b < nb; ++b) {
            unsigned bk = (unsigned) t.below(10);
            if (bk >= 8 && boxes.empty()) bk = 7;
            Pt4 lo{0, 0, 0, 0}, hi{0, 0, 0, 0};
            const Pt4 &a = sorted[qpr.below(sorted.size())].second, &c = sorted[qpr.below(sorted.size())].second;
            switch (bk) {
                case 0: // corners on stored points
                    for (size_t d = 0; d < D; ++d) lo[d] = std::min(a[d], c[d]), hi[d] = std::max(a[d], c[d]);
                    break;
                case 1: // single cell (stored or neighbouring)
                    for (size_t d = 0; d < D; ++d) lo[d] = hi[d] = std::min<uint64_t>(cmax, a[d] + qpr.below(2));
                    break;
                case 2: // full space
                    for (size_t d = 0; d < D; ++d) lo[d] = 0, hi[d] = cmax;
                    break;
                case 3: { // one-cell-thick slab through a stored point
                    size_t thin = qpr.below(D);
                    for (size_t d = 0; d < D; ++d) {
                        if (d == thin) lo[d] = hi[d] = a[d];
                        else lo[d] = qpr.below(2) ? 0 : std::min(a[d], c[d]), hi[d] = qpr.below(2) ? cmax : std::max(a[d], c[d]);
                    }
                    break;
                }
                case 4: { // thin slab of thickness 1..4
                    size_t thin = qpr.below(D);
                    for (size_t d = 0; d < D; ++d) {
                        if (d == thin) lo[d] = a[d], hi[d] = std::min<uint64_t>(cmax, a[d] + qpr.below(4));
                        else lo[d] = std::min(a[d], c[d]) / 2, hi[d] = std::min<uint64_t>(cmax, std::max(a[d], c[d]) * 2 + 1);
                    }
                    break;
                }
                case 5: { // box probably containing no point: small box at a random place
                    for (size_t d = 0; d < D; ++d) {
                        unsigned bb = (unsigned) qpr.below(coord_bits + 1);
                        lo[d] = bb == 0 ? 0 : (qpr.next() & ((uint64_t(1) << bb) - 1));
                        hi[d] = std::min<uint64_t>(cmax, lo[d] + qpr.below(3));
                    }
                    break;
                }
                case 6: { // box reaching the largest stored point / code
                    const Pt4 &last = sorted.back().second;
                    for (size_t d = 0; d < D; ++d) lo[d] = std::min(a[d], last[d]), hi[d] = qpr.below(2) ? last[d] : cmax;
                    break;
                }
                case 8:   // consecutive calls that share a corner: same lower corner as the previous box, every upper coordinate kept, shortened
                case 9: { // or lengthened independently (so neither box contains the other); 9: the same with the upper corner shared
                    const Pt4 &plo = boxes.back().first, &phi = boxes.back().second;
                    for (size_t d = 0; d < D; ++d) {
                        unsigned how = (unsigned) qpr.below(3);
                        if (bk == 8) {
                            lo[d] = plo[d];
                            hi[d] = how == 0 ? phi[d] : how == 1 ? plo[d] + qpr.below(phi[d] - plo[d] + 1) : std::min<uint64_t>(cmax, phi[d] + 1 + qpr.below(phi[d] - plo[d] + 2));
                        } else {
                            hi[d] = phi[d];
                            lo[d] = how == 0 ? plo[d] : how == 1 ? plo[d] + qpr.below(phi[d] - plo[d] + 1) : plo[d] - std::min<uint64_t>(plo[d], 1 + qpr.below(phi[d] - plo[d] + 2));
                        }
                    }
                    break;
                }
                default: { // random box around a stored point
                    for (size_t d = 0; d < D; ++d) {
                        unsigned bb = (unsigned) qpr.below(coord_bits + 1);
                        uint64_t w = bb == 0 ? 0 : (qpr.next() & ((uint64_t(1) << bb) - 1));
                        lo[d] = a[d] > w ? a[d] - w : 0;
                        hi[d] = std::min<uint64_t>(cmax, a[d] + (qpr.next() % (w + 1)));
                    }
                    break;
                }
            }
            boxes.emplace_back(lo, hi);
            static const char *names[] = {"corners", "cell", "full", "slab1", "slabk", "random_small", "to_last", "around", "same_min_as_previous", "same_max_as_previous"};
            box_kinds.push_back(names[bk]);
        }
        if (const std::string *xb = ctx.x("xboxes")) {
            std::vector<Pt4> flat = pts_from_text<D>(*xb);
            boxes.clear();
            box_kinds.clear();
            for (size_t i = 0; i + 1 < flat.size(); i += 2) boxes.emplace_back(flat[i], flat[i + 1]), box_kinds.push_back("explicit");
        }
    }

    auto describe = [&]() {
        std::ostringstream d;
        d << "MultidimensionalPGMIndex<" << (int) D << "," << (sizeof(T) == 4 ? "uint32_t" : "uint64_t") << "," << Eps << "> n=" << pts.size()
          << " points: " << rec.str() << " ctor_kind=" << ctor_kind << "\n";
        d << "points=";
        for (size_t i = 0; i < pts.size() && i < 40; ++i) d << " " << pt_str<D>(pts[i]);
        if (pts.size() > 40) d << " ...";
        d << "\n";
        for (size_t b = 0; b < boxes.size() && b < 12; ++b) d << "box[" << box_kinds[b] << "] " << pt_str<D>(boxes[b].first) << ".." << pt_str<D>(boxes[b].second) << "\n";
        return d.str();
    };
    if (ctx.want_desc) {
        res.desc = describe();
        if (pts.size() <= 20000) {
            res.xdata.emplace_back("xpoints", pts_to_text<D>(pts));
            res.xdata.emplace_back("xctor", std::to_string(ctor_kind));
            if (!boxes.empty()) {
                std::vector<Pt4> flat;
                for (auto &b: boxes) flat.push_back(b.first), flat.push_back(b.second);
                res.xdata.emplace_back("xboxes", pts_to_text<D>(flat));
            }
        }
    }
    if (!ctx.execute) return res;

    // convention check of the independent encoder (dimension 0 is the least significant): harness self-test, not a verdict.
    // It reads the first stored element through begin() (no box test, no skip logic), so a broken range() cannot upset it.
    {
        Pt4 u{0, 0, 0, 0};
        u[0] = 1;
        Pt4 v{0, 0, 0, 0};
        v[D - 1] = 1;
        std::vector<Tuple> two{to_tuple<D, T>(v), to_tuple<D, T>(u)};
        Index probe(two.begin(), two.end());
        if (D > 1 && from_tuple<D>(*probe.begin()) != u) throw HarnessBug("Morton convention of the oracle does not match the library");
    }

    // The constructor is a template over the iterator: callers may pass tuples (or pairs) whose element types are narrower than T.
    // ctor_kind (read from the tape before the execute gate): 0 = tuples of T, 1 = tuples of uint32_t into a 64-bit index,
    // 2 = std::pair<uint32_t,uint32_t> (D == 2), 3 = tuples of uint16_t (coordinates permitting)
    bool fits32 = true, fits16 = true;
    for (auto &p: pts)
        for (size_t d = 0; d < D; ++d) fits32 &= p[d] <= 0xFFFFFFFFull, fits16 &= p[d] <= 0xFFFFull;
    // 1 case in 8: a construction that is rejected (one coordinate too wide, placed last so that every valid point is processed first)
    // immediately precedes the real one, with the same iterator type: a rejected construction must leave nothing behind
    if (poison) {
        std::vector<Tuple> bad;
        for (size_t i = 0; i < pts.size() && i < 64; ++i) {
            Pt4 q = pts[i];
            for (size_t d = 0; d < D; ++d) q[d] = cmax - q[d]; // mirrored points: mostly NOT in the real multiset
            bad.push_back(to_tuple<D, T>(q));
        }
        Pt4 wide{0, 0, 0, 0};
        wide[D - 1] = cmax + 1;
        bad.push_back(to_tuple<D, T>(wide));
        try {
            Index rejected(bad.begin(), bad.end());
            res.fail("a point with a coordinate too wide for the encoder was accepted");
            return res;
        } catch (const std::exception &) {
        }
        res.label("after_rejected_construction");
    }
    std::unique_ptr<Index> idx, source_kept;
    try {
        if (ctor_kind == 1 && sizeof(T) == 8 && fits32) {
            std::vector<decltype(to_tuple<D, uint32_t>(pts[0]))> narrow;
            for (auto &p: pts) narrow.push_back(to_tuple<D, uint32_t>(p));
            idx.reset(new Index(narrow.begin(), narrow.end()));
            res.label("ctor_from_uint32_tuples");
        } else if (ctor_kind == 2 && D == 2 && fits32) {
            std::vector<std::pair<uint32_t, uint32_t>> pairs;
            for (auto &p: pts) pairs.emplace_back((uint32_t) p[0], (uint32_t) p[1]);
            if constexpr (D == 2) idx.reset(new Index(pairs.begin(), pairs.end()));
            res.label("ctor_from_uint32_pairs");
        } else if (ctor_kind == 3 && fits16) {
            std::vector<decltype(to_tuple<D, uint16_t>(pts[0]))> narrow;
            for (auto &p: pts) narrow.push_back(to_tuple<D, uint16_t>(p));
            idx.reset(new Index(narrow.begin(), narrow.end()));
            res.label("ctor_from_uint16_tuples");
        }
        if (!idx) {
            std::vector<Tuple> tuples;
            tuples.reserve(pts.size());
            for (auto &p: pts) tuples.push_back(to_tuple<D, T>(p));
            idx.reset(new Index(tuples.begin(), tuples.end()));
        }
        if (prov == 2) {
            std::unique_ptr<Index> cp(new Index(*idx));
            idx.reset();                       // the source is destroyed ...
            std::vector<uint64_t> recycle(pts.size() + 8, 0xA5A5A5A5A5A5A5A5ull); // ... and memory of its size is handed out again and scribbled on
            idx = std::move(cp);
            res.label("object_is_a_copy_source_destroyed");
            (void) recycle.data();
        } else if (prov == 3) {
            source_kept = std::move(idx);
            idx.reset(new Index(*source_kept));
            std::vector<Tuple> other;          // the source goes on to hold other points (mirrored, at most as many)
            for (size_t i = 0; i < pts.size(); i += 2) {
                Pt4 q = pts[i];
                for (size_t d = 0; d < D; ++d) q[d] = cmax - q[d];
                other.push_back(to_tuple<D, T>(q));
            }
            *source_kept = Index(other.begin(), other.end());
            res.label("object_is_a_copy_source_reassigned");
        }
    } catch (const std::exception &e) {
        res.fail(std::string("construction threw on in-domain input: ") + e.what());
        return res;
    }

    static const char *knames[] = {"pts_grid", "pts_subgrid", "pts_clusters", "pts_sparse", "pts_lines", "pts_tiny"};
    res.label(knames[kind]);
    bool has_dup = false;
    for (size_t i = 1; i < sorted.size(); ++i) has_dup |= sorted[i].first == sorted[i - 1].first;
    if (has_dup) res.label("duplicate_points");

    uint64_t n_boxes = 0, n_results = 0, n_queries = 0;
    bool nt = false;

    if (mem) {
        // C17 only (memory safety of every public operation; no answer is judged here): plain traversal begin()..end(),
        // size_in_bytes()
        volatile uint64_t sink = idx->size_in_bytes();
        size_t steps = 0;
        for (auto it = idx->begin(); it != idx->end() && steps < pts.size() + 2; ++it, ++steps) sink = sink + from_tuple<D>(*it)[0];
        (void) sink;
        res.label("mem_plain_traversal");
    }
    if (c13 || mem) {
        for (size_t b = 0; b < boxes.size() && res.ok; ++b) {
            const Pt4 &lo = boxes[b].first, &hi = boxes[b].second;
            for (size_t d = 0; d < D; ++d)
                if (lo[d] > hi[d] || hi[d] > cmax) throw HarnessBug("invalid box generated");
            // expected: stored points inside the box in increasing (independent) Morton order, with multiplicity
            std::vector<Pt4> expect;
            unsigned __int128 zlo = morton_ref<D>(lo, field_bits), zhi = morton_ref<D>(hi, field_bits);
            size_t run_out = 0, max_run_out = 0;
            for (auto &s: sorted) {
                bool in = true;
                for (size_t d = 0; d < D; ++d) in &= s.second[d] >= lo[d] && s.second[d] <= hi[d];
                if (in) expect.push_back(s.second), run_out = 0;
                else if (s.first >= zlo && s.first <= zhi) max_run_out = std::max(max_run_out, ++run_out);
            }
            std::vector<Pt4> got;
            const size_t limit = pts.size() + 2;
            try {
                auto mn = to_tuple<D, T>(lo), mx = to_tuple<D, T>(hi);
                for (auto it = idx->range(mn, mx); it != idx->end(); ++it) {
                    got.push_back(from_tuple<D>(*it));
                    if (got.size() > limit) break;
                }
            } catch (const std::exception &e) {
                res.fail("range(" + pt_str<D>(lo) + "," + pt_str<D>(hi) + ") threw: " + e.what());
                break;
            }
            ++n_boxes;
            n_results += got.size();
            if (mem) continue;
            if (got != expect) {
                std::ostringstream m;
                m << "range " << pt_str<D>(lo) << ".." << pt_str<D>(hi) << " [" << box_kinds[b] << "] returned " << got.size() << (got.size() > limit ? "+ (does not terminate)" : "")
                  << " points, expected " << expect.size();
                size_t i = 0;
                while (i < got.size() && i < expect.size() && got[i] == expect[i]) ++i;
                m << "; first difference at result #" << i << ": got " << (i < got.size() ? pt_str<D>(got[i]) : std::string("end")) << ", expected "
                  << (i < expect.size() ? pt_str<D>(expect[i]) : std::string("end"));
                res.fail(m.str());
                break;
            }
            if (!expect.empty() && max_run_out >= 65) nt = true, res.label("nt_box_with_skip");
            if (expect.empty()) res.label("box_empty");
        }
        // two cursors alive at once: the first two boxes are enumerated again, one step of each in turn (an iterator carries its own
        // box and position; what another range() call on the same index does must not matter to it)
        if (res.ok && boxes.size() >= 2) {
            auto inside = [&](const Pt4 &p, size_t b) {
                for (size_t d = 0; d < D; ++d)
                    if (p[d] < boxes[b].first[d] || p[d] > boxes[b].second[d]) return false;
                return true;
            };
            std::vector<Pt4> want[2], got[2];
            for (auto &sp: sorted)
                for (size_t b = 0; b < 2; ++b)
                    if (inside(sp.second, b)) want[b].push_back(sp.second);
            try {
                auto it0 = idx->range(to_tuple<D, T>(boxes[0].first), to_tuple<D, T>(boxes[0].second));
                auto it1 = idx->range(to_tuple<D, T>(boxes[1].first), to_tuple<D, T>(boxes[1].second));
                const size_t limit = 2 * pts.size() + 4;
                for (size_t step = 0; step < limit && (it0 != idx->end() || it1 != idx->end()); ++step) {
                    if (it0 != idx->end()) got[0].push_back(from_tuple<D>(*it0)), ++it0;
                    if (it1 != idx->end()) got[1].push_back(from_tuple<D>(*it1)), ++it1;
                }
            } catch (const std::exception &e) {
                res.fail(std::string("interleaved range iteration threw: ") + e.what());
            }
            for (size_t b = 0; b < 2 && res.ok && !mem; ++b)
                if (got[b] != want[b])
                    res.fail("two range iterators advanced in turn: box " + pt_str<D>(boxes[b].first) + ".." + pt_str<D>(boxes[b].second) + " yielded " +
                             std::to_string(got[b].size()) + " points, expected " + std::to_string(want[b].size()));
            res.label("two_live_range_iterators");
        }
    }
    if (c14 || mem) {
        // membership multiset
        std::vector<unsigned __int128> codes;
        for (auto &s: sorted) codes.push_back(s.first);
        auto is_member = [&](const Pt4 &p) { return std::binary_search(codes.begin(), codes.end(), morton_ref<D>(p, field_bits)); };
        std::vector<Pt4> qs;
        size_t step = std::max<size_t>(1, sorted.size() / 400);
        for (size_t i = 0; i < sorted.size(); i += step) {
            const Pt4 &p = sorted[i].second;
            qs.push_back(p);
            for (size_t d = 0; d < D; ++d) { // neighbours in each dimension
                Pt4 a = p, b = p;
                if (a[d] < cmax) ++a[d], qs.push_back(a);
                if (b[d] > 0) --b[d], qs.push_back(b);
            }
        }
        // single-bit twins: a stored point with one bit of one coordinate flipped (every bit position of every dimension)
        {
            size_t tstep = std::max<size_t>(1, sorted.size() / 24);
            for (size_t i = 0; i < sorted.size(); i += tstep)
                for (size_t d = 0; d < D; ++d)
                    for (unsigned b = 0; b < coord_bits; ++b) {
                        Pt4 q = sorted[i].second;
                        q[d] ^= uint64_t(1) << b;
                        if (q[d] <= cmax) qs.push_back(q);
                    }
        }
        // absent points by code position: below all, between consecutive stored codes, above all
        auto decode_ref = [&](unsigned __int128 c) {
            Pt4 p{0, 0, 0, 0};
            for (unsigned b = 0; b < field_bits; ++b)
                for (size_t d = 0; d < D; ++d) p[d] |= (uint64_t) ((c >> (b * D + d)) & 1) << b;
            return p;
        };
        auto encodable = [&](const Pt4 &p) {
            for (size_t d = 0; d < D; ++d)
                if (p[d] > cmax) return false;
            return true;
        };
        bool between = false;
        auto try_code = [&](unsigned __int128 c, bool is_between) {
            Pt4 p = decode_ref(c);
            if (!encodable(p)) return;
            qs.push_back(p);
            if (is_between && !is_member(p)) between = true;
        };
        if (codes.front() > 0) try_code(codes.front() - 1, false), try_code(0, false);
        for (size_t i = 0; i + 1 < codes.size(); i += step)
            if (codes[i + 1] - codes[i] > 1) {
                try_code(codes[i] + 1, true);
                try_code(codes[i] + (codes[i + 1] - codes[i]) / 2, true);
                try_code(codes[i + 1] - 1, true);
            }
        {
            Pt4 top{0, 0, 0, 0};
            for (size_t d = 0; d < D; ++d) top[d] = cmax;
            qs.push_back(top);
            try_code(codes.back() + 1, false);
            for (int i = 0; i < 16; ++i) {
                Pt4 p{0, 0, 0, 0};
                for (size_t d = 0; d < D; ++d) {
                    unsigned bb = (unsigned) qpr.below(coord_bits + 1);
                    p[d] = bb == 0 ? 0 : (qpr.next() & ((uint64_t(1) << bb) - 1));
                }
                qs.push_back(p);
            }
        }
        if (poison)
            for (size_t i = 0; i < pts.size() && i < 64; ++i) {
                Pt4 q = pts[i];
                for (size_t d = 0; d < D; ++d) q[d] = cmax - q[d];
                qs.push_back(q);
            }
        for (auto &p: qs) {
            if (!encodable(p)) throw HarnessBug("query point not encodable");
            bool want = is_member(p);
            bool got;
            try {
                got = idx->contains(to_tuple<D, T>(p));
            } catch (const std::exception &e) {
                res.fail("contains(" + pt_str<D>(p) + ") threw: " + e.what());
                break;
            }
            ++n_queries;
            if (mem) continue;
            if (got != want) {
                unsigned __int128 c = morton_ref<D>(p, field_bits);
                const char *pos = c < codes.front() ? "below all stored codes" : c > codes.back() ? "above all stored codes" : "between stored codes";
                res.fail("contains(" + pt_str<D>(p) + ") = " + (got ? "true" : "false") + ", the point is " + (want ? "stored" : std::string("absent (code ") + pos + ")"));
                break;
            }
        }
        if (c14) nt = between;
        if (between) res.label("nt_absent_between_codes");
    }
    res.sum("boxes", n_boxes);
    res.sum("box_results", n_results);
    res.sum("contains_queries", n_queries);
    res.nontrivial = nt;
    if (mem) res.nontrivial = true; // every box is iterated to end(); contains() is asked below, between and above the stored codes
    if (!res.ok && ctx.want_desc) res.desc = describe();
    return res;
}

} // namespace vf
