// e_multidim: dispatch; C13, C14.
#include "../common/engine.hpp"
#include <algorithm>
#include "../common/tape.hpp"

namespace vf {
using MdFn = CaseResult (*)(const RunCtx &, TapeReader &, unsigned size_hint);
#define VF_DECL(ID) extern const MdFn MD_TABLE_##ID[4];
VF_DECL(d2u32) VF_DECL(d3u32) VF_DECL(d4u32) VF_DECL(d2u64) VF_DECL(d3u64) VF_DECL(d4u64)

static CaseResult run(const RunCtx &ctx, const Tape &tape, Tape &canon) {
    static const MdFn *const T[6] = {MD_TABLE_d2u32, MD_TABLE_d2u64, MD_TABLE_d3u32, MD_TABLE_d3u64, MD_TABLE_d4u32, MD_TABLE_d4u64};
    TapeReader t(tape);
    unsigned size_hint = (unsigned) t.below(101);
    static const unsigned tw[] = {3, 3, 2, 2, 1, 1};
    size_t kt = t.weighted(tw);
    size_t cfg = t.below(4);
    if (ctx.mode == "mem" && t.chance(1, 2)) size_hint = std::min(size_hint, 12u); // C17: boundary sizes (n = 1, 2, 3) every other case
    CaseResult r = T[kt][cfg](ctx, t, size_hint);
    canon = t.canon();
    return r;
}

static const char *rule(const std::string &prop) {
    if (prop == "C13")
        return "cases: point multisets (full dense grids, random subsets of small grids with duplicates, clusters, sparse points up to the largest encodable "
               "coordinate, dense lines, tiny sets) for Dimensions in {2,3,4} x {uint32,uint64} x Epsilon in {1,4,16,64}; 2..11 boxes per case (corners on stored "
               "points, single cells, full space, one-cell and k-cell slabs, empty boxes, boxes reaching the last stored code, random). oracle: the iterated "
               "sequence equals the stored points inside the box sorted by an independent bit-loop Morton encoder, with multiplicity; a step limit turns "
               "non-termination into a failure. non-trivial: a non-empty box whose code interval contains >= 65 consecutive stored codes outside the box "
               "(the Z-order skip ran); distinct by canonical tape hash";
    return "cases: point multisets as C13; query points = stored points, their neighbours in every dimension, absent points with code below / between / above "
           "the stored codes (constructed from gaps of the sorted code list), the all-max point, random points. oracle: membership in the multiset. "
           "non-trivial: an absent query whose code lies strictly between two stored codes; distinct by canonical tape hash";
}

const Engine ENGINE = {"e_multidim", 256, &run, &rule};
} // namespace vf
